#!/usr/bin/env python3-vt
import json, jsonschema, glob, sys
jsonschema.validate(json.load(open('/verif/MANIFEST.json')), json.load(open('/root/.vp/MANIFEST.schema.json'))); print('manifest valid')
es = json.load(open('/root/.vp/EVIDENCE.schema.json'))
for f in sorted(glob.glob('/verif/evidence/*.json')):
    try:
        jsonschema.validate(json.load(open(f)), es); print(f, 'valid')
    except Exception as e:
        print(f, 'INVALID', str(e)[:300])
