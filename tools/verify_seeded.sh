#!/bin/bash
# usage: verify_seeded.sh <seeded-root> <worktree> <id>...   (confirms: applies, demo passes without / fails with, suite passes with)
ROOT=$1; WT=$2; shift 2
H=$(git -C /repo rev-parse HEAD)
for ID in "$@"; do
  D=$ROOT/$ID
  [ -f $D/patch.diff ] || continue
  PROP=${ID%%_*}
  if [ "$PROP" = "C19" ]; then CRATE=drcp-format; else CRATE=pumpkin-solver; fi
  T=seeded_$(echo $ID | tr 'A-Z' 'a-z')
  git -C $WT checkout -q -- . ; git -C $WT clean -fdq -e target; git -C $WT checkout -q --detach $H
  export CARGO_TARGET_DIR=$WT/target
  mkdir -p $WT/$CRATE/tests; cp $D/demo.rs $WT/$CRATE/tests/$T.rs
  ( cd $WT && timeout 900 cargo test -p $CRATE --test $T --offline > $D/verify_demo_without.log 2>&1 ); R0=$?
  if ! git -C $WT apply $D/patch.diff 2> $D/verify_apply.log; then echo "{\"id\":\"$ID\",\"applies\":false}" > $D/verify.json; echo "$ID does not apply"; continue; fi
  ( cd $WT && timeout 900 cargo test -p $CRATE --test $T --offline > $D/verify_demo_with.log 2>&1 ); R1=$?
  rm -f $WT/$CRATE/tests/$T.rs
  ( cd $WT && timeout 1800 cargo test --workspace --no-fail-fast --offline > $D/verify_suite.log 2>&1 )
  FAILED=$(grep -E "^test .* FAILED$" $D/verify_suite.log | grep -v prime4294967297 | wc -l)
  COMPILE_ERR=$(grep -c "^error" $D/verify_suite.log)
  echo "{\"id\":\"$ID\",\"applies\":true,\"head\":\"$H\",\"demo_without_exit\":$R0,\"demo_with_exit\":$R1,\"suite_failed_tests_other_than_prime\":$FAILED,\"suite_compile_errors\":$COMPILE_ERR}" > $D/verify.json
  echo "$ID demo without=$R0 with=$R1 suite_failed=$FAILED compile_err=$COMPILE_ERR"
  git -C $WT checkout -q -- . ; git -C $WT clean -fdq -e target
done
