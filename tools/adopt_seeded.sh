#!/bin/bash
# usage: adopt_seeded.sh <src-root> <round-dir> <id>...   copies a confirmed change (verify.json present) into /verif/seeded/<round-dir>/
SRC=$1; R=$2; shift 2
for ID in "$@"; do
  [ -f $SRC/$ID/verify.json ] || { echo "$ID: no verify.json"; continue; }
  mkdir -p /verif/seeded/$R/$ID
  for f in patch.diff demo.rs meta.json verify.json; do cp $SRC/$ID/$f /verif/seeded/$R/$ID/; done
  echo "$ID adopted"
done
