#!/usr/bin/env python3
"""Regenerates /verif/MANIFEST.json from pylib/props.py (single source of truth)."""
import json, os, sys, subprocess
sys.path.insert(0, "/verif/pylib")
import props

ALL = ["C%02d" % i for i in range(1, 21)]
hooks_commits = subprocess.run(["git", "-C", "/repo", "log", "--format=%H %s"], capture_output=True, text=True).stdout.splitlines()
hook_shas = [l.split()[0] for l in hooks_commits if l.split(" ", 1)[1].startswith("verif hooks")]

checks = []
for pid in ALL:
    if pid not in props.PROPS:
        continue
    s = props.PROPS[pid]
    checks.append({
        "property_id": pid,
        "quick_cmd": "./check %s quick" % pid,
        "thorough_cmd": "./check %s thorough" % pid,
        "evidence_file": "evidence/%s.json" % pid,
        "replay_cmd_template": "./check %s --replay {path}" % pid,
        "engine": s.get("engine", "vcheck"),
        "level_claimed": {"category": s["level"], "text": s.get("level_text", s["rule"]), "design_ref": s.get("design_ref", "DESIGN.md")},
        "level_note": s.get("level_note", "; ".join(props.LIB_ASSUMPTIONS)),
        "technique": s.get("technique", "runtime monitoring: reference-model oracle over executions of the real library"),
    })
na = [{"property_id": pid, "reason": props.NOT_CLAIMED.get(pid, "check not built yet in this session; see DESIGN.md")} for pid in ALL if pid not in props.PROPS]
m = {
    "version": 1,
    "setup_cmd": "./check --build",
    "hooks": {
        "guard": "--cfg pumpkin_verif",
        "enable": "RUSTFLAGS='--cfg pumpkin_verif' (set in harness/.cargo/config.toml for the library harness; passed via env for the CLI build by ./check)",
        "baseline_off_cmd": "cd /repo && cargo test --workspace --no-fail-fast --offline",
        "source_commits": hook_shas,
        "add_only": True,
    },
    "engines": [
        {"name": "vcheck", "path": "harness/", "serves_properties": [p for p in ALL if p in props.PROPS and props.PROPS[p]["kind"] == "lib"],
         "kind_free_text": "Rust harness linking /repo's pumpkin-solver (hooks on): seeded model generator, i128 reference semantics + enumerator, per-property judges, hook-event monitors"},
        {"name": "cli-monitors", "path": "pylib/", "serves_properties": [p for p in ALL if p in props.PROPS and props.PROPS[p]["kind"] != "lib"],
         "kind_free_text": "Python black-box monitors over the rebuilt pumpkin-solver binary (stdout, proof files)"},
    ],
    "checks": checks,
    "notes": "All checks rebuild from /repo's working tree. VERIF_SEED selects the PRNG stream. Known findings: known_findings.json (read-only at run time).",
    "not_applicable": na,
}
json.dump(m, open("/verif/MANIFEST.json", "w"), indent=1)
print("checks:", [c["property_id"] for c in checks], "not claimed:", [n["property_id"] for n in na])
