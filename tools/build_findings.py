#!/usr/bin/env python3
"""(Re)build known_findings.json from a declarative list; each finding picks its witness among the replay
files currently under /verif/replays (first one matching). Existing witnesses under /verif/known are kept
when no replay matches. Run after a calibration run; never run by the checks themselves."""
import json, glob, os, re, shutil, sys
sys.path.insert(0, "/verif/pylib")
import orch

THRASH = "option tuple without guaranteed progress (restarts on while learned nogoods are deleted above a tiny limit, or nothing is learned): the solve does not terminate within the poll budget"
SPEC = []
for P in ["C02", "C03", "C05", "C07", "C09", "C18"]:
    SPEC.append((P, P + "-thrash-no-termination", ["opt.thrash"], r"^(budget-exhausted|hang)", THRASH))
SPEC += [
  ("C05", "C05-no-learning-assumptions", ["opt.no_learning"], r".", "the no-learning resolver flips assumptions like decisions and asserts on assumption levels without a decision entry: panics / unusable cores under assumptions"),
  ("C05", "C05-core-tightened-by-root-hole", [], r"^core-not-implied-by-assumptions", "the trail stores an assumption in its propagated form ([x >= 4] posted on a domain from which root propagation has removed 4 is stored as [x >= 5]) and the core cites that form, which is not a consequence of the assumptions alone; likewise for an assumption that is false in every solution of the model"),
  ("C06", "C06-scaffold-sat-unsat-cuts-missing", ["proof.scaffold", "proof.sat-unsat"], r"^nogood-not-implied", "scaffold proof of a linear SAT-UNSAT optimisation does not contain the objective cuts its nogoods depend on"),
  ("C06", "C06-hints-incomplete", ["proof.hinted"], r"^hints-insufficient", "hinted proof: a nogood follows by propagation from the earlier steps but not from the steps named in its hints (a unit nogood behind a root-level fact is missing from the hints)"),
  ("C06", "C06-root-premise-not-true", [], r"assertion failed: self.assignments.is_predicate_s", "full / hinted proof: logging a root propagation asserts on a reason predicate that is not true; seen with new_literal_for_predicate for a predicate that is already decided at the root, and with a reified constraint in which the reification literal itself occurs (b <-> (b != x - 1): the literal is set to false with a reason that contains [b == 1])"),
  ("C08", "C08-repeated-start-variable-late-conflict", ["cumulative.repeated_var"], r"If the heap is empty when extracting the final nogood", "cumulative in which one variable is the start time of two tasks (here x and -2x): a conflict is reported at a decision level to which none of its predicates belongs (it existed at a lower level already), and conflict analysis panics on the empty heap; seen once, with TimeTablePerPointIncrementalSynchronised, sequence generation and incremental backtracking off"),
  ("C16", "C16-extreme-minmax", ["mag.regime.extreme"], r"^solution-invented.*\((max|min)\) violated", "maximum / minimum over an offset view in a domain that contains i32::MAX (or i32::MIN + 1): a bound that lies beyond the 32-bit range is replaced by the nearest representable value when it is mapped to the inner variable, which is not strong enough when that value is in the domain, so an assignment that violates the constraint is reported", ["kind.max", "kind.min"]),
]

def main():
    kf_path = "/verif/known_findings.json"
    old = json.load(open(kf_path)) if os.path.exists(kf_path) else {"findings": [], "fixed": []}
    oldmap = {f["id"]: f for f in old.get("findings", [])}
    os.makedirs("/verif/known", exist_ok=True)
    out = []
    # pass 1: own witnesses
    for spec in SPEC:
        prop, fid, classes, symptom, what = spec[:5]
        entry = {"property": prop, "id": fid, "classes": classes, "symptom": symptom, "what": what}
        if len(spec) > 5:
            entry["classes_any"] = spec[5]
        wit = None
        for f in sorted(glob.glob("/verif/replays/%s/*.json" % prop)):
            j = json.load(open(f))
            res = {"status": "fail", "kind": j.get("kind"), "detail": j.get("detail"), "classes": j.get("classes") or []}
            if orch.finding_matches(entry, res):
                wit = (f, j)
                break
        if wit:
            dst = "known/%s.json" % fid
            shutil.copy(wit[0], "/verif/" + dst)
            entry["witness"] = {"mode": wit[1].get("mode"), "file": dst, "extra_args": wit[1].get("extra_args", [])}
        elif fid in oldmap and "witness" in oldmap[fid] and os.path.exists("/verif/" + oldmap[fid]["witness"]["file"]):
            entry["witness"] = oldmap[fid]["witness"]
        out.append(entry)
    # pass 2: a finding without its own witness borrows the witness of the same defect (same `what`) found
    # through another property; the witness is then replayed in its own mode with that property's symptom
    for e in out:
        if "witness" in e:
            continue
        donor = next((d for d in out if d["what"] == e["what"] and "witness" in d and "symptom" not in d["witness"]), None)
        if donor:
            w = dict(donor["witness"])
            w["symptom"] = donor["symptom"]
            w["classes"] = donor["classes"]
            w["borrowed_from"] = donor["id"]
            e["witness"] = w
        else:
            print("NO WITNESS for", e["id"])
    old["findings"] = out
    json.dump(old, open(kf_path, "w"), indent=1)
    print(len(out), "findings written")

if __name__ == "__main__":
    main()
