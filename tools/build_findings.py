#!/usr/bin/env python3
"""(Re)build known_findings.json from a declarative list; each finding picks its witness among the replay
files currently under /verif/replays (first one matching). Existing witnesses under /verif/known are kept
when no replay matches. Run after a calibration run; never run by the checks themselves."""
import json, glob, os, re, shutil, sys
sys.path.insert(0, "/verif/pylib")
import orch

THRASH = "option tuple without guaranteed progress (restarts on while learned nogoods are deleted above a tiny limit, or nothing is learned): the solve does not terminate within the poll budget"
IMPL_CUM = "half-reified cumulative (incremental time-table variants): an assignment with the literal true that overloads the resource is reported"
MIN = "conflict analysis meets a reason predicate that is not assigned (mostly with clauses over equality / disequality predicates or constraints with a repeated variable; consequence of the nogood propagator propagating on an equality predicate that is not true): the recursive minimiser panics"
TR = "clause over equality / disequality predicates: conflict analysis asks for the trail entry of a predicate that is not on the trail"
ELEM = "element constraint in which a variable occurs more than once: solutions are lost / conflict analysis panics"
LIB = ["C01", "C02", "C03", "C04", "C05", "C06", "C07", "C08", "C09", "C10", "C11", "C16", "C18", "C20"]
SPEC = []
for P in ["C02", "C03", "C07", "C09", "C18"]:
    SPEC.append((P, P + "-thrash-no-termination", ["opt.thrash"], r"^(budget-exhausted|hang)", THRASH))
for P in ["C01", "C02", "C03", "C04", "C05", "C07", "C09", "C10", "C11", "C18"]:
    SPEC.append((P, P + "-implied-cumulative", ["implied.cumulative"], r"^(solution-violates-model|non-solution-yielded|stale-or-wrong-solution).*cumulative", IMPL_CUM))
for P in LIB:
    SPEC.append((P, P + "-minimiser-unassigned-predicate", [], r"called `Option::unwrap\(\)` on a `None` value @ .*recursive_minimiser", MIN))
    SPEC.append((P, P + "-predicate-clause-trail-entry", [], r"Expected to be able to get trail entry of", TR))
for P in ["C02", "C03", "C07", "C09"]:
    SPEC.append((P, P + "-element-repeated-variable", ["element.repeated_var"], r"^(solution-missing|panic|unsat-but-satisfiable|learned-nogood-not-implied)", ELEM))
SPEC += [
  ("C09", "C09-implied-element-minimiser-panic", ["implied.element"], r"^panic: called `Option::unwrap\(\)` on a `None` value @ .*recursive_minimiser", "half-reified element: the recursive minimiser panics on a reason predicate that is not assigned"),
  ("C05", "C05-no-learning-assumptions", ["opt.no_learning"], r".", "the no-learning resolver flips assumptions like decisions: panics / wrong cores under assumptions"),
  ("C05", "C05-assumption-false-at-root", ["assume.model_false"], r"^(core-not-implied-by-assumptions|core-panic)", "an assumption that is false in every solution of the model: the core contains its negation / extract_core panics"),
  ("C05", "C05-core-panic-resolver", [], r"^core-panic.*resolution_resolver", "extract_core panics in the resolver (unwrap on None in the all-decision resolution)"),
  ("C10", "C10-core-panic-resolver", ["history.assumptions"], r"extract_core.*resolution_resolver", "extract_core panics in the resolver (unwrap on None in the all-decision resolution)"),
  ("C10", "C10-core-panic-after-optimise", ["history.optimise", "history.assumptions"], r"^panic: .*extract_core", "extract_core panics in a history that contains an earlier optimisation (objective facts at the root without a reason)"),
  ("C08", "C08-extended-regime", ["cumulative.extended"], r".", "cumulative outside the canonical regime (zero duration/usage, usage > capacity, negative or scaled start times, repeated variables): wrong solution sets, unsound explanations, panics, a hang"),
  ("C17", "C17-cumulative-extended-regime", ["cumulative.extended"], r"^(reason-|conflict-reason-|analysis-reason-|hang)", "cumulative outside the canonical regime: explanations that do not follow from the constraint / are not true; endless loop with zero-duration tasks"),
  ("C17", "C17-nogood-reason-not-true", [], r"^analysis-reason-not-true.*NogoodPropagator", "nogood containing an equality predicate: the nogood propagator propagates although that predicate is not true, so its reason does not hold (mostly with clauses over equality predicates or repeated variables)"),
  ("C06", "C06-unsat-at-clause-without-empty-nogood", ["proof.post_err.clause"], r"^unsat-without-empty-nogood", "infeasibility detected while adding a clause: the proof concludes UNSAT without the empty nogood"),
  ("C06", "C06-scaffold-sat-unsat-cuts-missing", ["proof.scaffold", "proof.sat-unsat"], r"^nogood-not-implied", "scaffold proof of a linear SAT-UNSAT optimisation does not contain the objective cuts its nogoods depend on"),
  ("C06", "C06-reified-literal-trivial-predicate", ["kind.literal_definition"], r"(is not a valid reification predicate|assertion failed: rhs == 0 \|\| rhs == 1)", "literal created with new_literal_for_predicate: proof logging panics on a trivially true bound of the literal (e.g. [b <= 1]) in a reason"),
  ("C06", "C06-predicate-clause-root-premise", ["kind.predicate_clause"], r"assertion failed: self.assignments.is_predicate_satisfied\(premise\)", "clause over equality predicates: logging a root propagation asserts on a reason predicate that is not true"),
  ("C06", "C06-finalizer-empty-reason", [], r"assertion failed: !reason.is_empty\(\)", "proof finalisation asserts on an empty reason"),
  ("C13", "C13-element-repeated-variable", ["fzn.element_repeated_var"], r"^(solution-set-mismatch|printed-non-solution|no-verdict|unsat-but-satisfiable)", ELEM),
  ("C15", "C15-cardinality-network-duplicate-soft", ["enc.cardinality-network", "wcnf.duplicate_soft"], r"Sorting network encoding is only supported on unweighted", "duplicate unit soft clauses of a uniform-weight instance are merged into one weighted literal and the cardinality-network encoding panics"),
  ("C16", "C16-extreme-magnitudes", ["mag.regime.extreme"], r".", "constants at the 32-bit limits themselves (|value| >= 2^30 combined with offsets / right-hand sides of the same magnitude): wrapped intermediate results in views, linear-not-equal, maximum/minimum, absolute, division"),
]

def main():
    kf_path = "/verif/known_findings.json"
    old = json.load(open(kf_path)) if os.path.exists(kf_path) else {"findings": [], "fixed": []}
    oldmap = {f["id"]: f for f in old.get("findings", [])}
    os.makedirs("/verif/known", exist_ok=True)
    out = []
    # pass 1: own witnesses
    for spec in SPEC:
        prop, fid, classes, symptom, what = spec[:5]
        entry = {"property": prop, "id": fid, "classes": classes, "symptom": symptom, "what": what}
        if len(spec) > 5:
            entry["classes_any"] = spec[5]
        wit = None
        for f in sorted(glob.glob("/verif/replays/%s/*.json" % prop)):
            j = json.load(open(f))
            res = {"status": "fail", "kind": j.get("kind"), "detail": j.get("detail"), "classes": j.get("classes") or []}
            if orch.finding_matches(entry, res):
                wit = (f, j)
                break
        if wit:
            dst = "known/%s.json" % fid
            shutil.copy(wit[0], "/verif/" + dst)
            entry["witness"] = {"mode": wit[1].get("mode"), "file": dst, "extra_args": wit[1].get("extra_args", [])}
        elif fid in oldmap and "witness" in oldmap[fid] and os.path.exists("/verif/" + oldmap[fid]["witness"]["file"]):
            entry["witness"] = oldmap[fid]["witness"]
        out.append(entry)
    # pass 2: a finding without its own witness borrows the witness of the same defect (same `what`) found
    # through another property; the witness is then replayed in its own mode with that property's symptom
    for e in out:
        if "witness" in e:
            continue
        donor = next((d for d in out if d["what"] == e["what"] and "witness" in d and "symptom" not in d["witness"]), None)
        if donor:
            w = dict(donor["witness"])
            w["symptom"] = donor["symptom"]
            w["classes"] = donor["classes"]
            w["borrowed_from"] = donor["id"]
            e["witness"] = w
        else:
            print("NO WITNESS for", e["id"])
    old["findings"] = out
    json.dump(old, open(kf_path, "w"), indent=1)
    print(len(out), "findings written")

if __name__ == "__main__":
    main()
