#!/usr/bin/env python3
"""Apply each seeded change to /repo, run the check(s), undo. usage: run_seeded.py <dir-with-mutants> [ids...]
Writes <dir>/<id>/detection.json. NEVER leaves /repo modified (git checkout -- . in finally)."""
import json, os, subprocess, sys, glob, time
root = sys.argv[1]
only = sys.argv[2:]
EXTRA = {"C01": ["C03", "C08", "C17"], "C02": ["C17", "C08", "C03", "C07", "C05", "C10"], "C03": ["C05", "C10", "C09", "C01"], "C04": ["C03", "C01", "C17"], "C05": ["C10", "C09", "C02"], "C06": ["C04", "C17"], "C07": ["C14", "C02", "C03"], "C08": ["C17", "C03"], "C09": ["C03", "C17", "C08"], "C10": ["C05", "C15", "C11"], "C11": ["C10", "C13"], "C12": ["C10", "C09", "C16"], "C13": ["C17", "C03", "C09", "C04"], "C14": ["C02", "C12", "C03"], "C15": ["C04"], "C16": ["C12"], "C17": ["C02", "C03", "C08"], "C18": ["C03", "C11"], "C20": ["C08", "C17"]}
def sh(cmd, **kw):
    return subprocess.run(cmd, shell=True, stdout=subprocess.PIPE, stderr=subprocess.STDOUT, text=True, **kw)
assert sh("git -C /repo status --porcelain --untracked-files=no").stdout.strip() == "", "/repo is not clean"
for d in sorted(glob.glob(os.path.join(root, "C??_?"))):
    mid = os.path.basename(d)
    if only and mid not in only:
        continue
    patch = os.path.join(d, "patch.diff")
    if not os.path.exists(patch):
        continue
    prop = mid.split("_")[0]
    out = {"id": mid, "property": prop, "runs": []}
    chk = sh("git -C /repo apply --check %s" % patch)
    if chk.returncode != 0:
        out["applies"] = False
        out["apply_error"] = chk.stdout[-500:]
        json.dump(out, open(os.path.join(d, "detection.json"), "w"), indent=1)
        print(mid, "DOES NOT APPLY")
        continue
    out["applies"] = True
    try:
        sh("git -C /repo apply %s" % patch)
        detected_by = []
        for p in [prop] + EXTRA.get(prop, []):
            for seed in (1, 2):
                t = time.time()
                r = sh("cd /verif && VERIF_SEED=%d timeout 1500 ./check %s quick" % (seed, p))
                viol = [l for l in r.stdout.splitlines() if l.startswith("VIOLATION")]
                kinds = [l.strip()[:200] for l in r.stdout.splitlines() if l.startswith("  ")][:3]
                out["runs"].append({"check": p, "seed": seed, "exit": r.returncode, "violations": len(viol), "first": kinds, "wall_s": round(time.time() - t, 1), "summary": r.stdout.strip().splitlines()[-1][:200] if r.stdout.strip() else ""})
                if viol:
                    detected_by.append(p)
                    break
            if p == prop and prop in detected_by:
                break
        out["detected_by"] = sorted(set(detected_by))
    finally:
        sh("git -C /repo checkout -- .")
        sh("rm -rf /verif/replays/*")
        sh("git -C /verif checkout -- evidence")  # evidence written on a changed tree is never kept
    json.dump(out, open(os.path.join(d, "detection.json"), "w"), indent=1)
    print(mid, "detected by", out["detected_by"], [(r["check"], r["seed"], r["violations"]) for r in out["runs"]], flush=True)
assert sh("git -C /repo status --porcelain --untracked-files=no").stdout.strip() == ""
