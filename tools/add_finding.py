#!/usr/bin/env python3
"""Promote a replay file to a known finding.
usage: add_finding.py <replay.json> <finding-id> <classes(comma, may be empty)> <symptom-regex> <what> [classes_any(comma)]"""
import json, sys, os, shutil
replay, fid, classes, symptom, what = sys.argv[1:6]
classes_any = sys.argv[6].split(",") if len(sys.argv) > 6 and sys.argv[6] else None
data = json.load(open(replay))
os.makedirs("/verif/known", exist_ok=True)
dst = "known/%s.json" % fid
shutil.copy(replay, "/verif/" + dst)
kf = json.load(open("/verif/known_findings.json"))
kf["findings"] = [f for f in kf["findings"] if f["id"] != fid]
entry = {"property": data["property"], "id": fid, "mode": data.get("mode"), "classes": [c for c in classes.split(",") if c], "symptom": symptom, "what": what,
         "witness": {"mode": data.get("mode"), "file": dst, "extra_args": data.get("extra_args", [])}}
if classes_any:
    entry["classes_any"] = classes_any
kf["findings"].append(entry)
kf["findings"].sort(key=lambda f: (f["property"], f["id"]))
json.dump(kf, open("/verif/known_findings.json", "w"), indent=1)
print("added", fid)
