#!/usr/bin/env python3
"""Collects /verif/seeded/<id>/{meta,verify,detection}.json into seeded/README.md and normalises meta.json."""
import json, glob, os
rows = []
for d in sorted(glob.glob("/verif/seeded/C??_?")) + sorted(glob.glob("/verif/seeded/round2/C??_?")) + sorted(glob.glob("/verif/seeded/round3/C??_?")) + sorted(glob.glob("/verif/seeded/round4/C??_?")):
    mid = os.path.basename(d)
    shown = ("R2:" if "/round2/" in d else "R3:" if "/round3/" in d else "R4:" if "/round4/" in d else "") + mid
    meta = json.load(open(d + "/meta.json"))
    ver = json.load(open(d + "/verify.json")) if os.path.exists(d + "/verify.json") else {}
    det = json.load(open(d + "/detection.json")) if os.path.exists(d + "/detection.json") else {}
    meta["seeded_id"] = mid
    meta["breaks_property"] = mid.split("_")[0]
    meta["confirmed_by_verif"] = {
        "what_was_run": "tools/verify_seeded.sh: demo without the patch, demo with the patch, full suite with the patch, in a scratch worktree at /repo HEAD %s" % ver.get("head", "?")[:10],
        "patch_applies": ver.get("applies"),
        "demo_passes_without_change": ver.get("demo_without_exit") == 0,
        "demo_fails_with_change": ver.get("demo_with_exit") not in (0, None),
        "suite_failures_other_than_prime4294967297": ver.get("suite_failed_tests_other_than_prime"),
    }
    meta["detection"] = {"detected_by": det.get("detected_by", []), "runs": det.get("runs", [])}
    json.dump(meta, open(d + "/meta.json", "w"), indent=1)
    needs = (meta.get("needs") or "")
    needs = needs if isinstance(needs, str) else json.dumps(needs)
    summ = meta.get("summary") or ""
    files = meta.get("files_changed") or []
    rows.append((shown, ", ".join(os.path.basename(f) for f in files)[:60], needs[:170].replace("\n", " ").replace("|", "/"),
                 "yes" if meta["confirmed_by_verif"]["demo_fails_with_change"] and meta["confirmed_by_verif"]["demo_passes_without_change"] else "see meta",
                 ", ".join(det.get("detected_by", [])) or "**not caught**"))
with open("/verif/seeded/README.md", "w") as f:
    f.write("# Seeded changes\n\nProduced by fresh sub-agents that saw only the property text and a scratch worktree (four rounds; `round2/`, `round3/` and `round4/` were asked for other files and mechanisms than the earlier rounds and were made against the tree as repaired at that time, DESIGN §8.1). Each directory holds `patch.diff` (apply with `git -C /repo apply`), `demo.rs` (integration test that fails with the change and passes without it), `meta.json` (the agent's description, my confirmation, and the checks' verdicts).\n\n")
    f.write("| id | file(s) changed | needs, in order to manifest | demo confirmed | caught by (quick tier, seeds 1–2) |\n|---|---|---|---|---|\n")
    for r in rows:
        f.write("| %s | %s | %s | %s | %s |\n" % r)
    caught = sum(1 for r in rows if "not caught" not in r[4])
    f.write("\n%d of %d caught.\n" % (caught, len(rows)))
print("rows", len(rows))
