#!/usr/bin/env python3
"""Group replay files of a property by symptom; show class intersections. Usage: triage.py C03 [prefix]"""
import json, glob, sys, re, collections
prop = sys.argv[1]
pref = sys.argv[2] if len(sys.argv) > 2 else ""
groups = collections.defaultdict(list)
for f in sorted(glob.glob(f"/verif/replays/{prop}/{pref}*.json")):
    j = json.load(open(f))
    d = j.get("detail") or ""
    d = re.sub(r"history \[.*?\]: ", "", d, flags=re.S) if d.startswith("history [") else d
    d = re.sub(r"^(uninterrupted )?[a-z\-\(\)]+( interrupted at poll \d+)?: ", "", d) if j.get("mode") == "c11" and j["kind"] == "panic" else d
    if j["kind"] == "panic":
        sig = "panic: " + re.sub(r"\d+", "N", d.split(" @ ")[0])[:90] + " @ " + d.split(" @ ")[-1].split(":")[0]
    else:
        sig = j["kind"]
    groups[sig].append((f, j))
for sig, items in sorted(groups.items(), key=lambda x: -len(x[1])):
    inter = None
    for f, j in items:
        c = set(j.get("classes") or [])
        inter = c if inter is None else inter & c
    print(f"{len(items):5d}  {sig}")
    print(f"       common classes: {sorted(inter)}")
    print(f"       e.g. {items[0][0]}")
    print(f"       {items[0][1].get('detail','')[:300]}")
