//! Minimal JSON value, writer and parser (no external crates available offline for this).
use std::collections::BTreeMap;
use std::fmt::Write;

#[derive(Clone, Debug, PartialEq)]
pub enum Json {
    Null,
    Bool(bool),
    Int(i128),
    Float(f64),
    Str(String),
    Arr(Vec<Json>),
    Obj(BTreeMap<String, Json>),
}

impl Json {
    pub fn obj<const N: usize>(items: [(&str, Json); N]) -> Json {
        Json::Obj(items.into_iter().map(|(k, v)| (k.to_string(), v)).collect())
    }
    pub fn str(s: impl Into<String>) -> Json {
        Json::Str(s.into())
    }
    pub fn int(i: impl Into<i128>) -> Json {
        Json::Int(i.into())
    }
    pub fn arr<T>(it: impl IntoIterator<Item = T>, f: impl Fn(T) -> Json) -> Json {
        Json::Arr(it.into_iter().map(f).collect())
    }
    pub fn ints<'a, T: Copy + Into<i128> + 'a>(it: impl IntoIterator<Item = &'a T>) -> Json {
        Json::Arr(it.into_iter().map(|x| Json::Int((*x).into())).collect())
    }
    pub fn get(&self, k: &str) -> &Json {
        match self {
            Json::Obj(m) => m.get(k).unwrap_or(&Json::Null),
            _ => &Json::Null,
        }
    }
    pub fn as_i64(&self) -> i64 {
        match self {
            Json::Int(i) => *i as i64,
            Json::Float(f) => *f as i64,
            _ => panic!("json: expected int, got {self:?}"),
        }
    }
    pub fn as_u64(&self) -> u64 {
        match self {
            Json::Int(i) => *i as u64,
            _ => panic!("json: expected int, got {self:?}"),
        }
    }
    pub fn as_usize(&self) -> usize {
        self.as_i64() as usize
    }
    pub fn as_bool(&self) -> bool {
        match self {
            Json::Bool(b) => *b,
            _ => panic!("json: expected bool, got {self:?}"),
        }
    }
    pub fn as_str(&self) -> &str {
        match self {
            Json::Str(s) => s,
            _ => panic!("json: expected string, got {self:?}"),
        }
    }
    pub fn as_arr(&self) -> &[Json] {
        match self {
            Json::Arr(a) => a,
            _ => panic!("json: expected array, got {self:?}"),
        }
    }
    pub fn is_null(&self) -> bool {
        matches!(self, Json::Null)
    }
    pub fn to_string(&self) -> String {
        let mut s = String::new();
        self.write(&mut s);
        s
    }
    pub fn write(&self, out: &mut String) {
        match self {
            Json::Null => out.push_str("null"),
            Json::Bool(b) => out.push_str(if *b { "true" } else { "false" }),
            Json::Int(i) => {
                let _ = write!(out, "{i}");
            }
            Json::Float(f) => {
                if f.is_finite() {
                    let _ = write!(out, "{f}");
                } else {
                    out.push_str("null");
                }
            }
            Json::Str(s) => write_str(s, out),
            Json::Arr(a) => {
                out.push('[');
                for (i, x) in a.iter().enumerate() {
                    if i > 0 {
                        out.push(',');
                    }
                    x.write(out);
                }
                out.push(']');
            }
            Json::Obj(m) => {
                out.push('{');
                for (i, (k, v)) in m.iter().enumerate() {
                    if i > 0 {
                        out.push(',');
                    }
                    write_str(k, out);
                    out.push(':');
                    v.write(out);
                }
                out.push('}');
            }
        }
    }
    pub fn parse(s: &str) -> Result<Json, String> {
        let b = s.as_bytes();
        let mut p = 0usize;
        let v = parse_value(b, &mut p)?;
        skip_ws(b, &mut p);
        if p != b.len() {
            return Err(format!("trailing characters at {p}"));
        }
        Ok(v)
    }
}

fn write_str(s: &str, out: &mut String) {
    out.push('"');
    for c in s.chars() {
        match c {
            '"' => out.push_str("\\\""),
            '\\' => out.push_str("\\\\"),
            '\n' => out.push_str("\\n"),
            '\r' => out.push_str("\\r"),
            '\t' => out.push_str("\\t"),
            c if (c as u32) < 0x20 => {
                let _ = write!(out, "\\u{:04x}", c as u32);
            }
            c => out.push(c),
        }
    }
    out.push('"');
}

fn skip_ws(b: &[u8], p: &mut usize) {
    while *p < b.len() && (b[*p] as char).is_ascii_whitespace() {
        *p += 1;
    }
}

fn parse_value(b: &[u8], p: &mut usize) -> Result<Json, String> {
    skip_ws(b, p);
    if *p >= b.len() {
        return Err("unexpected end".into());
    }
    match b[*p] {
        b'{' => {
            *p += 1;
            let mut m = BTreeMap::new();
            loop {
                skip_ws(b, p);
                if *p < b.len() && b[*p] == b'}' {
                    *p += 1;
                    return Ok(Json::Obj(m));
                }
                let k = match parse_value(b, p)? {
                    Json::Str(s) => s,
                    _ => return Err("object key must be a string".into()),
                };
                skip_ws(b, p);
                if *p >= b.len() || b[*p] != b':' {
                    return Err(format!("expected ':' at {p}"));
                }
                *p += 1;
                let v = parse_value(b, p)?;
                let _ = m.insert(k, v);
                skip_ws(b, p);
                if *p < b.len() && b[*p] == b',' {
                    *p += 1;
                }
            }
        }
        b'[' => {
            *p += 1;
            let mut a = vec![];
            loop {
                skip_ws(b, p);
                if *p < b.len() && b[*p] == b']' {
                    *p += 1;
                    return Ok(Json::Arr(a));
                }
                a.push(parse_value(b, p)?);
                skip_ws(b, p);
                if *p < b.len() && b[*p] == b',' {
                    *p += 1;
                }
            }
        }
        b'"' => {
            *p += 1;
            let mut s = Vec::new();
            while *p < b.len() && b[*p] != b'"' {
                if b[*p] == b'\\' {
                    *p += 1;
                    match b.get(*p) {
                        Some(b'n') => s.push(b'\n'),
                        Some(b'r') => s.push(b'\r'),
                        Some(b't') => s.push(b'\t'),
                        Some(b'u') => {
                            let h = std::str::from_utf8(&b[*p + 1..*p + 5]).map_err(|e| e.to_string())?;
                            let c = u32::from_str_radix(h, 16).map_err(|e| e.to_string())?;
                            let mut buf = [0u8; 4];
                            s.extend_from_slice(char::from_u32(c).unwrap_or('?').encode_utf8(&mut buf).as_bytes());
                            *p += 4;
                        }
                        Some(c) => s.push(*c),
                        None => return Err("bad escape".into()),
                    }
                } else {
                    s.push(b[*p]);
                }
                *p += 1;
            }
            *p += 1;
            Ok(Json::Str(String::from_utf8_lossy(&s).into_owned()))
        }
        b't' if b[*p..].starts_with(b"true") => {
            *p += 4;
            Ok(Json::Bool(true))
        }
        b'f' if b[*p..].starts_with(b"false") => {
            *p += 5;
            Ok(Json::Bool(false))
        }
        b'n' if b[*p..].starts_with(b"null") => {
            *p += 4;
            Ok(Json::Null)
        }
        _ => {
            let st = *p;
            while *p < b.len() && matches!(b[*p], b'-' | b'+' | b'.' | b'e' | b'E' | b'0'..=b'9') {
                *p += 1;
            }
            let t = std::str::from_utf8(&b[st..*p]).map_err(|e| e.to_string())?;
            if let Ok(i) = t.parse::<i128>() {
                Ok(Json::Int(i))
            } else {
                t.parse::<f64>().map(Json::Float).map_err(|_| format!("bad number {t:?} at {st}"))
            }
        }
    }
}
