//! C19 (DRCP round trip), C06 (DRCP proofs are valid certificates), C20 (library reproducibility).
use std::cell::RefCell;
use std::collections::BTreeMap;
use std::collections::BTreeSet;
use std::num::NonZeroI32;
use std::num::NonZeroU32;
use std::num::NonZeroU64;

use drcp_format::reader::ProofReader;
use drcp_format::steps::Conclusion;
use drcp_format::steps::Step;
use drcp_format::writer::ProofWriter;
use drcp_format::AtomicConstraint;
use drcp_format::BoolAtomicConstraint;
use drcp_format::Comparison;
use drcp_format::Format;
use drcp_format::IntAtomicConstraint;
use drcp_format::LiteralDefinitions;
use pumpkin_solver::optimisation::linear_sat_unsat::LinearSatUnsat;
use pumpkin_solver::optimisation::linear_unsat_sat::LinearUnsatSat;
use pumpkin_solver::optimisation::OptimisationDirection;
use pumpkin_solver::proof::ProofLog;
use pumpkin_solver::results::solution_iterator::IteratedSolution;
use pumpkin_solver::results::OptimisationResult;
use pumpkin_solver::results::SatisfactionResult;
use pumpkin_solver::results::SolutionReference;
use pumpkin_solver::Solver;
use rand::rngs::SmallRng;
use rand::Rng;
use rand::SeedableRng;

use crate::core::*;
use crate::drive::*;
use crate::events;
use crate::gen;
use crate::json::Json;
use crate::model::*;
use crate::props_a::*;

// ---------------------------------------------------------------------------------------------
// C19

#[derive(Clone, Debug, PartialEq)]
enum St {
    Inf { tag: Option<u32>, label: Option<String>, premises: Vec<i32>, concl: Option<i32> },
    Nogood { lits: Vec<i32>, hints: Option<Vec<u64>> },
    Del(u64),
    Unsat,
    Optimal(i32),
}

fn gen_code(r: &mut SmallRng) -> i32 {
    let m = match r.gen_range(0..6) {
        0 => 1,
        1 => i32::MAX,
        2 => r.gen_range(1..10),
        3 => r.gen_range(1..100_000),
        4 => i32::MAX - r.gen_range(0..3),
        _ => r.gen_range(1..=i32::MAX),
    };
    if r.gen_bool(0.5) {
        m
    } else {
        -m
    }
}

fn gen_ident(r: &mut SmallRng) -> String {
    let first = b"abcdefghijklmnopqrstuvwxyzABCDEFGHIJKLMNOPQRSTUVWXYZ_";
    let rest = b"abcdefghijklmnopqrstuvwxyzABCDEFGHIJKLMNOPQRSTUVWXYZ_0123456789";
    let mut s = String::new();
    s.push(first[r.gen_range(0..first.len())] as char);
    for _ in 0..r.gen_range(0..8) {
        s.push(rest[r.gen_range(0..rest.len())] as char);
    }
    s
}

fn gen_i64(r: &mut SmallRng) -> i64 {
    match r.gen_range(0..7) {
        0 => i64::MIN,
        1 => i64::MAX,
        2 => 0,
        3 => r.gen_range(-10..10),
        4 => i64::MIN + r.gen_range(0..3),
        5 => i64::MAX - r.gen_range(0..3),
        _ => r.gen(),
    }
}

pub fn run_c19(case: &Case) -> Outcome {
    let mut out = Outcome::default();
    let mut r = SmallRng::seed_from_u64(case.sub);
    // ---- step sequences
    let n = r.gen_range(1..12);
    let mut steps: Vec<St> = vec![];
    for _ in 0..n {
        let s = match r.gen_range(0..10) {
            0..=3 => St::Inf {
                tag: if r.gen_bool(0.5) { Some([1, 7, u32::MAX, r.gen_range(1..1000)][r.gen_range(0..4)]) } else { None },
                label: if r.gen_bool(0.4) { Some(gen_ident(&mut r)) } else { None },
                premises: (0..[0, 0, 1, 2, 5][r.gen_range(0..5)]).map(|_| gen_code(&mut r)).collect(),
                concl: if r.gen_bool(0.6) { Some(gen_code(&mut r)) } else { None },
            },
            4..=7 => St::Nogood {
                lits: (0..[0, 0, 1, 2, 4][r.gen_range(0..5)]).map(|_| gen_code(&mut r)).collect(),
                hints: match r.gen_range(0..3) {
                    0 => None,
                    1 => Some(vec![]),
                    _ => Some((0..r.gen_range(1..4)).map(|_| [1, r.gen_range(1..50), 1u64 << 62, u64::MAX][r.gen_range(0..4)]).collect()),
                },
            },
            _ => St::Del([1, r.gen_range(1..50), 1u64 << 63, u64::MAX][r.gen_range(0..4)]),
        };
        steps.push(s);
    }
    steps.push(if r.gen_bool(0.5) { St::Unsat } else { St::Optimal(gen_code(&mut r)) });
    let desc = format!("{steps:?}");
    let res = guard(|| {
        let mut out = Outcome::default();
        let mut buf: Vec<u8> = vec![];
        {
            let ident = |l: NonZeroI32| l;
            let mut w = ProofWriter::new(Format::Text, &mut buf, ident);
            let nz = |c: i32| NonZeroI32::new(c).unwrap();
            for s in &steps {
                match s {
                    St::Inf { tag, label, premises, concl } => {
                        let _ = w
                            .log_inference(tag.and_then(NonZeroU32::new), label.as_deref(), premises.iter().map(|c| nz(*c)), concl.map(nz))
                            .unwrap();
                    }
                    St::Nogood { lits, hints } => {
                        let _ = w
                            .log_nogood_clause(lits.iter().map(|c| nz(*c)), hints.as_ref().map(|h| h.iter().map(|x| NonZeroU64::new(*x).unwrap())))
                            .unwrap();
                    }
                    St::Del(id) => w.log_deletion(NonZeroU64::new(*id).unwrap()).unwrap(),
                    St::Unsat => {
                        let _ = w.unsat().unwrap();
                        break;
                    }
                    St::Optimal(c) => {
                        let _ = w.optimal(nz(*c)).unwrap();
                        break;
                    }
                }
            }
        }
        let text = String::from_utf8_lossy(&buf).to_string();
        // read back
        let mut reader = ProofReader::new(&buf[..], |l: NonZeroI32| l);
        let mut got: Vec<St> = vec![];
        loop {
            match reader.next_step() {
                Ok(None) => break,
                Ok(Some(step)) => got.push(match step {
                    Step::Inference(i) => St::Inf {
                        tag: i.hint_constraint_id.map(|t| t.get()),
                        label: i.hint_label.map(|s| s.to_string()),
                        premises: i.premises.iter().map(|c| c.get()).collect(),
                        concl: i.propagated.map(|c| c.get()),
                    },
                    Step::Nogood(n) => St::Nogood { lits: n.literals.iter().map(|c| c.get()).collect(), hints: n.hints.map(|h| h.iter().map(|x| x.get()).collect()) },
                    Step::Delete(d) => St::Del(d.id.get()),
                    Step::Conclusion(Conclusion::Unsatisfiable) => St::Unsat,
                    Step::Conclusion(Conclusion::Optimal(c)) => St::Optimal(c.get()),
                }),
                Err(e) => {
                    out.fail("reader-rejects-writer-output", format!("step {} of the written file {:?}: {e}", got.len() + 1, text.lines().nth(got.len()).unwrap_or("")));
                    return out;
                }
            }
        }
        out.count("steps_round_tripped", got.len() as u64);
        for (i, (a, b)) in steps.iter().zip(&got).enumerate() {
            // a nogood written with an empty hint list reads back with an empty hint list (or none)
            if a != b {
                out.fail("round-trip-mismatch", format!("step {}: wrote {a:?}, read {b:?} (line {:?})", i + 1, text.lines().nth(i).unwrap_or("")));
                return out;
            }
            out.cover(match a {
                St::Inf { premises, concl, tag, label } => format!(
                    "inference/premises={}/conclusion={}/tag={}/label={}",
                    if premises.is_empty() { "0" } else { "n" },
                    concl.is_some(),
                    tag.is_some(),
                    label.is_some()
                ),
                St::Nogood { lits, hints } => format!(
                    "nogood/literals={}/hints={}",
                    if lits.is_empty() { "0" } else { "n" },
                    match hints {
                        None => "none",
                        Some(h) if h.is_empty() => "empty",
                        _ => "n",
                    }
                ),
                St::Del(_) => "deletion".into(),
                St::Unsat => "conclusion/unsat".into(),
                St::Optimal(_) => "conclusion/bound".into(),
            });
        }
        if steps.len() != got.len() {
            out.fail("round-trip-mismatch", format!("wrote {} steps, read {}", steps.len(), got.len()));
        }
        out
    });
    merge(&mut out, res);
    if out.failed() {
        out.config = Json::obj([("steps", Json::str(desc))]);
        return out;
    }
    // ---- literal definitions + atomic negation
    let ndefs = r.gen_range(1..8);
    let mut defs: Vec<(u32, Vec<AtomicConstraint<String>>)> = vec![];
    let mut used = BTreeSet::new();
    for _ in 0..ndefs {
        let code = [1, 2, u32::MAX, r.gen_range(1..1000), r.gen_range(1..=u32::MAX)][r.gen_range(0..5)];
        if !used.insert(code) {
            continue;
        }
        let atoms = (0..r.gen_range(1..3))
            .map(|_| {
                if r.gen_range(0..4) == 0 {
                    AtomicConstraint::Bool(BoolAtomicConstraint { name: gen_ident(&mut r), value: r.gen_bool(0.5) })
                } else {
                    AtomicConstraint::Int(IntAtomicConstraint {
                        name: gen_ident(&mut r),
                        comparison: [Comparison::GreaterThanEqual, Comparison::LessThanEqual, Comparison::Equal, Comparison::NotEqual][r.gen_range(0..4)],
                        value: gen_i64(&mut r),
                    })
                }
            })
            .collect();
        defs.push((code, atoms));
    }
    let ddesc = format!("{defs:?}");
    let res = guard(|| {
        let mut out = Outcome::default();
        let mut ld: LiteralDefinitions<String> = LiteralDefinitions::default();
        for (c, atoms) in &defs {
            for a in atoms {
                ld.add(NonZeroU32::new(*c).unwrap(), a.clone());
            }
        }
        let mut buf = vec![];
        ld.write(&mut buf).unwrap();
        let text = String::from_utf8_lossy(&buf).to_string();
        match LiteralDefinitions::<String>::parse(&buf[..]) {
            Err(e) => out.fail("definitions-do-not-parse-back", format!("{e}: {text:?}")),
            Ok(back) => {
                for (c, atoms) in &defs {
                    let got = back.get(NonZeroU32::new(*c).unwrap());
                    if got != Some(&atoms[..]) {
                        out.fail("definitions-round-trip-mismatch", format!("code {c}: wrote {atoms:?}, read {got:?} ({text:?})"));
                        return out;
                    }
                    out.count("definitions_round_tripped", 1);
                }
            }
        }
        out
    });
    merge(&mut out, res);
    if out.failed() {
        out.config = Json::obj([("definitions", Json::str(ddesc))]);
        return out;
    }
    // double negation, in a separate guard: the extremes of i64 are part of the quantifier
    for (_, atoms) in &defs {
        for a in atoms {
            let a2 = a.clone();
            match guard(move || !!a2) {
                Ok(b) => {
                    out.count("double_negations", 1);
                    if &b != a {
                        out.fail("double-negation-mismatch", format!("!!{a:?} = {b:?}"));
                    }
                }
                Err(p) => out.fail("panic", format!("negating {a:?}: {p}")),
            }
        }
    }
    out.nontrivial = true;
    out
}

// ---------------------------------------------------------------------------------------------
// C20 (library part): a digest of everything observable of a run

pub fn run_c20(case: &Case) -> Outcome {
    let m = &case.model;
    let mut out = Outcome::new(m);
    let mut r = SmallRng::seed_from_u64(case.sub);
    let cfg = Config::random_progressing(&mut r);
    cfg.label(&mut out);
    let obj = gen::gen_view(&mut r, m, false, true);
    let optimise = r.gen_bool(0.3);
    let mut trace = String::new();
    pumpkin_solver::verif::enable();
    let res = guard(|| {
        let mut t = String::new();
        let mut b = build(m, cfg.opts.to_options(), m.cons.len(), false, false);
        if b.post_err.is_some() {
            t.push_str("post-error;");
            return t;
        }
        let mut brancher = make_brancher(&cfg.br, &b.solver, &b.xs);
        let mut term = Budget::for_model(m);
        if optimise {
            let cbs: RefCell<Vec<String>> = RefCell::new(vec![]);
            let xs = b.xs.clone();
            let cb = |_: &Solver, s: SolutionReference, _: &BoxB| cbs.borrow_mut().push(format!("{:?}", read_solution_ref(s, &xs)));
            let res = b.solver.optimise(&mut brancher, &mut term, LinearSatUnsat::new(OptimisationDirection::Minimise, mk_view(&obj, &b.xs), cb));
            t.push_str(&format!("callbacks={:?};", cbs.borrow()));
            t.push_str(&match res {
                OptimisationResult::Optimal(s) => format!("optimal {:?}", read_solution(&s, &b.xs)),
                OptimisationResult::Satisfiable(s) => format!("satisfiable {:?}", read_solution(&s, &b.xs)),
                OptimisationResult::Unsatisfiable => "unsat".into(),
                OptimisationResult::Unknown => "unknown".into(),
            });
        } else {
            let mut it = b.solver.get_solution_iterator(&mut brancher, &mut term);
            let mut n = 0;
            loop {
                match it.next_solution() {
                    IteratedSolution::Solution(sol, _, _) => {
                        t.push_str(&format!("{:?};", read_solution(&sol, &b.xs)));
                        n += 1;
                        if n >= 200 {
                            break;
                        }
                    }
                    IteratedSolution::Finished => {
                        t.push_str("finished");
                        break;
                    }
                    IteratedSolution::Unsatisfiable => {
                        t.push_str("unsat");
                        break;
                    }
                    IteratedSolution::Unknown => {
                        t.push_str("unknown");
                        break;
                    }
                }
            }
        }
        t.push_str(&format!(";polls={}", term.polls));
        t
    });
    let ev = pumpkin_solver::verif::drain();
    pumpkin_solver::verif::disable();
    match res {
        Ok(t) => trace.push_str(&t),
        Err(p) => trace.push_str(&format!("panic {p}")),
    }
    for e in &ev {
        match e {
            pumpkin_solver::verif::Event::Decision { predicate, decision_level, .. } => trace.push_str(&format!("|d{decision_level}:{predicate:?}")),
            pumpkin_solver::verif::Event::Learned { nogood, backjump_level, .. } => trace.push_str(&format!("|l{backjump_level}:{nogood:?}")),
            pumpkin_solver::verif::Event::Restart => trace.push_str("|r"),
            // explanations as given (order included): their order steers conflict analysis and is
            // what a proof log prints
            pumpkin_solver::verif::Event::Propagation { predicate, reason, .. } => trace.push_str(&format!("|p:{predicate:?}<-{reason:?}")),
            pumpkin_solver::verif::Event::Conflict { nogood, .. } => trace.push_str(&format!("|c:{nogood:?}")),
            pumpkin_solver::verif::Event::AnalysisReason { predicate, reason, .. } => trace.push_str(&format!("|a:{predicate:?}<-{reason:?}")),
            _ => {}
        }
    }
    let st = events::stats(&ev);
    trace.push_str(&format!("|stats:{}/{}/{}/{}", st.propagations, st.conflicts, st.decisions, st.restarts));
    use std::hash::Hasher;
    let mut h = Fnv(0xcbf29ce484222325);
    h.write(trace.as_bytes());
    out.notes.push(format!("digest={:016x}", h.finish()));
    out.notes.push(format!("trace_len={}", trace.len()));
    nontrivial(&mut out, &ev, 0);
    out.nontrivial = st.decisions >= 2;
    out
}

// ---------------------------------------------------------------------------------------------
// C06: DRCP proof checker

#[derive(Clone, Debug)]
enum PStep {
    Inf { id: u64, premises: Vec<i64>, concl: Option<i64>, tag: Option<u32> },
    Nogood { id: u64, lits: Vec<i64>, hints: Option<Vec<u64>> },
    Del(u64),
    Unsat,
    Bound(i64),
}

fn parse_drcp(text: &str) -> Result<Vec<PStep>, String> {
    let mut out = vec![];
    for (ln, line) in text.lines().enumerate() {
        let toks: Vec<&str> = line.split_whitespace().collect();
        if toks.is_empty() {
            continue;
        }
        let err = |m: &str| format!("line {}: {m}: {line:?}", ln + 1);
        match toks[0] {
            "i" => {
                let id: u64 = toks.get(1).and_then(|t| t.parse().ok()).ok_or_else(|| err("bad step id"))?;
                let mut premises = vec![];
                let mut concl = None;
                let mut tag = None;
                let mut k = 2;
                while k < toks.len() {
                    let t = toks[k];
                    if let Some(c) = t.strip_prefix("c:") {
                        tag = Some(c.parse::<u32>().map_err(|_| err("bad tag"))?);
                    } else if t.starts_with("l:") {
                    } else if t == "0" {
                        k += 1;
                        concl = Some(toks.get(k).and_then(|t| t.parse::<i64>().ok()).ok_or_else(|| err("bad conclusion"))?);
                    } else {
                        premises.push(t.parse::<i64>().map_err(|_| err("bad literal"))?);
                    }
                    k += 1;
                }
                out.push(PStep::Inf { id, premises, concl, tag });
            }
            "n" => {
                let id: u64 = toks.get(1).and_then(|t| t.parse().ok()).ok_or_else(|| err("bad step id"))?;
                let mut lits = vec![];
                let mut hints = None;
                let mut k = 2;
                while k < toks.len() {
                    if toks[k] == "0" {
                        hints = Some(toks[k + 1..].iter().map(|t| t.parse::<u64>().map_err(|_| err("bad hint"))).collect::<Result<Vec<_>, _>>()?);
                        break;
                    }
                    lits.push(toks[k].parse::<i64>().map_err(|_| err("bad literal"))?);
                    k += 1;
                }
                out.push(PStep::Nogood { id, lits, hints });
            }
            "d" => out.push(PStep::Del(toks.get(1).and_then(|t| t.parse().ok()).ok_or_else(|| err("bad step id"))?)),
            "c" => {
                if toks.get(1) == Some(&"UNSAT") {
                    out.push(PStep::Unsat)
                } else {
                    out.push(PStep::Bound(toks.get(1).and_then(|t| t.parse().ok()).ok_or_else(|| err("bad conclusion"))?))
                }
            }
            _ => return Err(err("unknown step kind")),
        }
    }
    Ok(out)
}

/// `.lits`: `<code> [name op value] ...`; names are `x<i>`.
fn parse_lits(text: &str, nvars: usize) -> Result<BTreeMap<i64, MPred>, String> {
    let mut map = BTreeMap::new();
    for (ln, line) in text.lines().enumerate() {
        let line = line.trim();
        if line.is_empty() {
            continue;
        }
        let err = |m: &str| format!(".lits line {}: {m}: {line:?}", ln + 1);
        let (code, rest) = line.split_once(' ').ok_or_else(|| err("no definition"))?;
        let code: i64 = code.parse().map_err(|_| err("bad code"))?;
        let inner = rest.trim().strip_prefix('[').and_then(|s| s.split(']').next()).ok_or_else(|| err("bad atomic"))?;
        let parts: Vec<&str> = inner.split_whitespace().collect();
        if parts.len() != 3 {
            return Err(err("bad atomic"));
        }
        let var: usize = parts[0].strip_prefix('x').and_then(|s| s.parse().ok()).ok_or_else(|| err("atomic over an unknown variable"))?;
        if var >= nvars {
            return Err(err("atomic over an unknown variable"));
        }
        let k = match parts[1] {
            ">=" => PK::Ge,
            "<=" => PK::Le,
            "==" => PK::Eq,
            "!=" => PK::Ne,
            _ => return Err(err("bad comparison")),
        };
        let v: i64 = match parts[2] {
            "true" => 1,
            "false" => 0,
            s => s.parse().map_err(|_| err("bad value"))?,
        };
        if map.insert(code, MPred { var, k, v }).is_some() {
            return Err(err("code defined twice"));
        }
    }
    Ok(map)
}

fn lit_pred(code: i64, defs: &BTreeMap<i64, MPred>) -> Result<MPred, String> {
    match defs.get(&code.abs()) {
        None => Err(format!("literal code {code} is used in the proof but not defined in the .lits file")),
        Some(p) => Ok(if code > 0 { *p } else { p.negate() }),
    }
}

/// Domains as explicit value sets; returns false on wipe-out.
fn enforce(doms: &mut [Vec<i64>], p: &MPred) -> bool {
    doms[p.var].retain(|x| p.holds_val(*x));
    !doms[p.var].is_empty()
}
fn is_true(doms: &[Vec<i64>], p: &MPred) -> bool {
    doms[p.var].iter().all(|x| p.holds_val(*x))
}
fn is_false(doms: &[Vec<i64>], p: &MPred) -> bool {
    !doms[p.var].iter().any(|x| p.holds_val(*x))
}

/// Domain-based reverse unit propagation: assert the negation of `clause`, propagate over `clauses`
/// (earlier nogoods) and `infs` (inferences logged since the previous nogood), require a conflict.
fn rup(model: &Model, clause: &[MPred], clauses: &[Vec<MPred>], infs: &[(Vec<MPred>, Option<MPred>)]) -> bool {
    let mut doms: Vec<Vec<i64>> = model.vars.iter().map(|v| v.dom.clone()).collect();
    for l in clause {
        if !enforce(&mut doms, &l.negate()) {
            return true;
        }
    }
    loop {
        let mut changed = false;
        for (prem, concl) in infs {
            if prem.iter().all(|p| is_true(&doms, p)) {
                match concl {
                    None => return true,
                    Some(c) => {
                        if !is_true(&doms, c) {
                            if !enforce(&mut doms, c) {
                                return true;
                            }
                            changed = true;
                        }
                    }
                }
            }
        }
        for c in clauses {
            let mut open: Option<&MPred> = None;
            let mut n_open = 0;
            let mut sat = false;
            for l in c {
                if is_true(&doms, l) {
                    sat = true;
                    break;
                }
                if !is_false(&doms, l) {
                    n_open += 1;
                    open = Some(l);
                }
            }
            if sat {
                continue;
            }
            if n_open == 0 {
                return true;
            }
            if n_open == 1 {
                if !enforce(&mut doms, open.unwrap()) {
                    return true;
                }
                changed = true;
            }
        }
        if !changed {
            return false;
        }
    }
}

pub fn run_c06(case: &Case) -> Outcome {
    let m = &case.model;
    let mut out = Outcome::new(m);
    let mut r = SmallRng::seed_from_u64(case.sub);
    let mode = case.extra.get("proof").as_str().to_string(); // scaffold | full | hinted
    let seed = r.gen();
    let mut opts = OptSpec::default_with_seed(seed);
    let minimise = r.gen_bool(0.5);
    let optimise = case.extra.get("optimise").as_bool();
    let obj_var = (0..m.vars.len()).filter(|i| m.vars[*i].kind != VarKind::Bool).nth(0).unwrap_or(0);
    let maximise = r.gen_bool(0.5);
    let unsat_sat = r.gen_bool(0.5);
    out.class(format!("proof.{mode}"));
    out.class(if optimise { "proof.optimality" } else { "proof.unsat" });
    if optimise {
        out.class(if unsat_sat { "proof.unsat-sat" } else { "proof.sat-unsat" });
    }
    out.config = Json::obj([
        ("proof", Json::str(mode.clone())),
        ("minimisation", Json::Bool(minimise)),
        ("optimise", Json::Bool(optimise)),
        ("procedure", Json::str(if unsat_sat { "unsat-sat" } else { "sat-unsat" })),
        ("direction", Json::str(if maximise { "max" } else { "min" })),
        ("objective", Json::str(format!("x{obj_var}"))),
    ]);
    let sols = m.enumerate();
    if !optimise && !sols.is_empty() {
        out.skip = Some("satisfiable model (no unsatisfiability proof)".into());
        return out;
    }
    if optimise && sols.is_empty() {
        out.skip = Some("unsatisfiable model in the optimisation slice".into());
        return out;
    }
    let dir = std::env::temp_dir().join("vcheck-proofs");
    let _ = std::fs::create_dir_all(&dir);
    let base = dir.join(format!("p{}-{:016x}", std::process::id(), case.sub));
    let drcp = base.with_extension("drcp");
    let lits = base.with_extension("lits");
    let cleanup = || {
        let _ = std::fs::remove_file(&drcp);
        let _ = std::fs::remove_file(&lits);
    };
    let callbacks: RefCell<Vec<i128>> = RefCell::new(vec![]);
    let mut verdict = String::new();
    let res = guard(|| {
        let mut o = Outcome::default();
        opts.is_default = false;
        opts.minimise = minimise;
        opts.no_restarts = false;
        opts.base_interval = 50;
        opts.min_conf_restart = 2;
        opts.seq = 1;
        opts.lbd_coef = 1.25;
        opts.num_assigned_coef = 1.4;
        opts.num_assigned_window = 50;
        opts.nogood_limit = 4000;
        opts.lbd_threshold = 5;
        let mut so = opts.to_options();
        so.proof_log = ProofLog::cp(&drcp, Format::Text, mode != "scaffold", mode == "hinted").expect("proof file");
        let mut solver = Solver::with_options(so);
        let xs = new_vars(&mut solver, m, 0, true);
        let mut post_err = false;
        for (i, c) in m.cons.iter().enumerate() {
            let tag = if c.0.taggable() { Some(i as u32 + 1) } else { None };
            if post_con(&mut solver, &xs, c, tag).is_err() {
                post_err = true;
                o.class(format!("proof.post_err.{}", if c.0.taggable() { "propagator" } else { "clause" }));
                break;
            }
        }
        if post_err {
            verdict = "unsat-at-post".into();
            if !sols.is_empty() {
                o.skip = Some("post error on a satisfiable model (judged by C02)".into());
                return o;
            }
            // Some post-time paths leave the conclusion to the next solve call; a user who asks the
            // solver after the error gets Unsatisfiable, which is when the proof must be complete.
            let mut brancher = solver.default_brancher();
            let mut t = Budget::for_model(m);
            let _ = solver.satisfy(&mut brancher, &mut t);
            drop(solver);
            return o;
        }
        let mut brancher = solver.default_brancher();
        let mut t = Budget::for_model(m);
        if optimise {
            let dirn = if maximise { OptimisationDirection::Maximise } else { OptimisationDirection::Minimise };
            let ov = mk_view(&View::plain(obj_var), &xs);
            let xs2 = xs.clone();
            let cb = |_: &Solver, s: SolutionReference, _: &pumpkin_solver::DefaultBrancher| {
                if let Ok(a) = read_solution_ref(s, &xs2) {
                    callbacks.borrow_mut().push(a[obj_var] as i128)
                }
            };
            let res = if unsat_sat {
                solver.optimise(&mut brancher, &mut t, LinearUnsatSat::new(dirn, ov, cb))
            } else {
                solver.optimise(&mut brancher, &mut t, LinearSatUnsat::new(dirn, ov, cb))
            };
            verdict = match res {
                OptimisationResult::Optimal(_) => "optimal".into(),
                OptimisationResult::Unsatisfiable => "unsat".into(),
                _ => "unknown".into(),
            };
        } else {
            verdict = match solver.satisfy(&mut brancher, &mut t) {
                SatisfactionResult::Unsatisfiable => "unsat".into(),
                SatisfactionResult::Satisfiable(_) => "sat".into(),
                SatisfactionResult::Unknown => "unknown".into(),
            };
        }
        drop(solver);
        o
    });
    match res {
        Err(p) => {
            cleanup();
            out.fail("panic", format!("while solving with proof logging ({mode}): {p}"));
            return out;
        }
        Ok(o) => merge(&mut out, Ok(o)),
    }
    if out.skip.is_some() {
        cleanup();
        return out;
    }
    if verdict == "unsat-at-post" {
        out.class("proof.unsat-at-post");
    }
    let expected_verdict = if optimise { "optimal" } else { "unsat" };
    if verdict != expected_verdict && verdict != "unsat-at-post" {
        cleanup();
        out.skip = Some(format!("solver verdict {verdict} (judged by other properties)"));
        return out;
    }
    let ptext = std::fs::read_to_string(&drcp).unwrap_or_default();
    let ltext = std::fs::read_to_string(&lits);
    cleanup();
    let proof_dump = || format!("--- .drcp ---\n{}\n--- .lits ---\n{}", ptext.chars().take(3000).collect::<String>(), ltext.as_ref().map(|s| s.chars().take(1500).collect::<String>()).unwrap_or_default());
    let Ok(ltext) = ltext.as_ref() else {
        out.fail("lits-file-missing", format!("solver concluded {verdict} but no literal definition file was written\n{}", proof_dump()));
        return out;
    };
    let defs = match parse_lits(ltext, m.vars.len()) {
        Ok(d) => d,
        Err(e) => {
            out.fail("lits-file-invalid", format!("{e}\n{}", proof_dump()));
            return out;
        }
    };
    let steps = match parse_drcp(&ptext) {
        Ok(s) => s,
        Err(e) => {
            out.fail("proof-file-invalid", format!("{e}\n{}", proof_dump()));
            return out;
        }
    };
    // ---- check the steps
    let mut tables = events::Tables::new(m, 20_000);
    // literals created for a predicate are written to the proof as that predicate, so the definitions
    // b <-> p are axioms of the proof: tagged inferences are then judged over all assignments that
    // satisfy the definitions (the models are small)
    let has_defs = m.cons.iter().any(|c| matches!(c.0, Con::LitDef(..)));
    let def_assignments: Vec<Vec<i64>> = if has_defs {
        m.all_assignments().into_iter().filter(|a| m.cons.iter().all(|c| !matches!(c.0, Con::LitDef(..)) || holds_r(c, a))).collect()
    } else {
        vec![]
    };
    let mut cur_sols: BTreeSet<Vec<i64>> = sols.clone(); // solutions that also satisfy the cuts so far
    let mut clauses: Vec<(u64, Vec<MPred>)> = vec![];
    let mut pending_infs: Vec<(Vec<MPred>, Option<MPred>)> = vec![];
    let mut pending_ids: Vec<u64> = vec![];
    let mut seen_ids = BTreeSet::new();
    let mut last_nogood_empty = false;
    let mut concluded = false;
    let mut cut_index = 0usize;
    let better = |v: i128, than: i128| if maximise { v > than } else { v < than };
    for (si, st) in steps.iter().enumerate() {
        if concluded {
            out.fail("steps-after-conclusion", format!("step {} follows the conclusion\n{}", si + 1, proof_dump()));
            return out;
        }
        match st {
            PStep::Inf { id, premises, concl, tag } => {
                if !seen_ids.insert(*id) {
                    out.fail("duplicate-step-id", format!("step id {id}\n{}", proof_dump()));
                    return out;
                }
                let prem: Result<Vec<MPred>, String> = premises.iter().map(|c| lit_pred(*c, &defs)).collect();
                let conc: Result<Option<MPred>, String> = concl.map(|c| lit_pred(c, &defs)).transpose();
                let (prem, conc) = match (prem, conc) {
                    (Ok(p), Ok(c)) => (p, c),
                    (Err(e), _) | (_, Err(e)) => {
                        out.fail("undefined-literal", format!("{e} (step {id})\n{}", proof_dump()));
                        return out;
                    }
                };
                out.count("inference_steps_checked", 1);
                match tag {
                    Some(t) => {
                        let ci = *t as usize - 1;
                        if ci >= m.cons.len() {
                            out.fail("inference-unknown-tag", format!("step {id} is tagged c:{t} but only {} constraints were posted", m.cons.len()));
                            return out;
                        }
                        let judged = if has_defs {
                            Ok(def_assignments
                                .iter()
                                .find(|a| holds_r(&m.cons[ci], a) && prem.iter().all(|p| p.holds(a)) && conc.map_or(true, |c| !c.holds(a)))
                                .cloned())
                        } else {
                            tables.counterexample(ci, &prem, conc.as_ref())
                        };
                        match judged {
                            Err(()) => out.count("inference_steps_unchecked_scope", 1),
                            Ok(None) => {}
                            Ok(Some(a)) => {
                                out.fail(
                                    "inference-does-not-follow",
                                    format!(
                                        "step {id}: {} -> {} is tagged with constraint #{ci} ({}), but {a:?} satisfies the constraint and the premises and not the conclusion\n{}",
                                        events::show_preds(&prem),
                                        conc.map_or("false".into(), |c| c.show()),
                                        m.cons[ci].0.kind(),
                                        proof_dump()
                                    ),
                                );
                                return out;
                            }
                        }
                    }
                    None => {
                        // objective step of the optimisation procedures?
                        let objective_step = optimise && conc.is_none() && prem.len() == 1 && prem[0].var == obj_var;
                        let cex = cur_sols.iter().find(|a| prem.iter().all(|p| p.holds(a)) && conc.map_or(true, |c| !c.holds(a)));
                        if let Some(a) = cex {
                            if objective_step && !unsat_sat {
                                // a cut: must say "objective better than the j-th callback value"
                                let cbs = callbacks.borrow();
                                let Some(vj) = cbs.get(cut_index) else {
                                    out.fail("unexpected-objective-cut", format!("step {id}: more objective cuts than solution callbacks\n{}", proof_dump()));
                                    return out;
                                };
                                let cut = prem[0].negate();
                                let ok = m.vars[obj_var].dom.iter().all(|x| cut.holds_val(*x) == better(*x as i128, *vj));
                                if !ok {
                                    out.fail("wrong-objective-cut", format!("step {id}: cut {} after the solution with objective {vj}\n{}", cut.show(), proof_dump()));
                                    return out;
                                }
                                cut_index += 1;
                                cur_sols.retain(|a| cut.holds(a));
                                out.count("objective_cuts", 1);
                            } else {
                                out.fail(
                                    "inference-does-not-follow",
                                    format!(
                                        "step {id}: untagged inference {} -> {} but the solution {a:?} of the model satisfies the premises and not the conclusion\n{}",
                                        events::show_preds(&prem),
                                        conc.map_or("false".into(), |c| c.show()),
                                        proof_dump()
                                    ),
                                );
                                return out;
                            }
                        } else if objective_step {
                            out.count("objective_bounds", 1);
                        }
                    }
                }
                pending_infs.push((prem, conc));
                pending_ids.push(*id);
            }
            PStep::Nogood { id, lits: ls, hints } => {
                if !seen_ids.insert(*id) {
                    out.fail("duplicate-step-id", format!("step id {id}\n{}", proof_dump()));
                    return out;
                }
                let cl: Result<Vec<MPred>, String> = ls.iter().map(|c| lit_pred(*c, &defs)).collect();
                let cl = match cl {
                    Ok(c) => c,
                    Err(e) => {
                        out.fail("undefined-literal", format!("{e} (step {id})\n{}", proof_dump()));
                        return out;
                    }
                };
                out.count("nogood_steps_checked", 1);
                // implied by the model (with the cuts so far)
                if let Some(a) = cur_sols.iter().find(|a| !cl.iter().any(|l| l.holds(a))) {
                    out.fail(
                        "nogood-not-implied",
                        format!("step {id}: the clause {} is falsified by the solution {a:?}\n{}", cl.iter().map(|l| l.show()).collect::<Vec<_>>().join(" | "), proof_dump()),
                    );
                    return out;
                }
                if let Some(h) = hints {
                    for hid in h {
                        if !seen_ids.contains(hid) {
                            out.fail("hint-unknown-step", format!("step {id} hints at step {hid} which does not precede it\n{}", proof_dump()));
                            return out;
                        }
                    }
                    out.count("hinted_nogoods", 1);
                }
                if mode != "scaffold" {
                    let cls: Vec<Vec<MPred>> = clauses.iter().map(|c| c.1.clone()).collect();
                    if !rup(m, &cl, &cls, &pending_infs) {
                        out.fail(
                            "nogood-not-derivable",
                            format!(
                                "step {id}: the clause {} does not follow by propagation from the earlier nogoods and the {} inferences logged for it\n{}",
                                cl.iter().map(|l| l.show()).collect::<Vec<_>>().join(" | "),
                                pending_infs.len(),
                                proof_dump()
                            ),
                        );
                        return out;
                    }
                    out.count("nogood_steps_derived", 1);
                    // hinted proofs: the steps named in the hints are the ones the nogood may use
                    if let Some(h) = hints {
                        let hs: std::collections::BTreeSet<u64> = h.iter().copied().collect();
                        let cls_h: Vec<Vec<MPred>> = clauses.iter().filter(|c| hs.contains(&c.0)).map(|c| c.1.clone()).collect();
                        let infs_h: Vec<(Vec<MPred>, Option<MPred>)> =
                            pending_infs.iter().zip(pending_ids.iter()).filter(|(_, i)| hs.contains(i)).map(|(x, _)| x.clone()).collect();
                        if !rup(m, &cl, &cls_h, &infs_h) {
                            out.fail(
                                "hints-insufficient",
                                format!(
                                    "step {id}: the clause {} follows by propagation from the earlier steps, but not from the {} steps named in its hints\n{}",
                                    cl.iter().map(|l| l.show()).collect::<Vec<_>>().join(" | "),
                                    h.len(),
                                    proof_dump()
                                ),
                            );
                            return out;
                        }
                        out.count("nogood_steps_derived_from_hints", 1);
                    }
                }
                last_nogood_empty = cl.is_empty();
                clauses.push((*id, cl));
                pending_infs.clear();
                pending_ids.clear();
            }
            PStep::Del(id) => {
                clauses.retain(|c| c.0 != *id);
                out.count("deletion_steps", 1);
            }
            PStep::Unsat => {
                concluded = true;
                if !last_nogood_empty {
                    out.fail("unsat-without-empty-nogood", format!("`c UNSAT` is not preceded by the empty nogood\n{}", proof_dump()));
                    return out;
                }
                if optimise {
                    out.fail("wrong-conclusion", format!("optimisation of a satisfiable model concluded UNSAT\n{}", proof_dump()));
                    return out;
                }
                out.cover("conclusion:unsat");
            }
            PStep::Bound(code) => {
                concluded = true;
                let p = match lit_pred(*code, &defs) {
                    Ok(p) => p,
                    Err(e) => {
                        out.fail("undefined-literal", format!("{e} (conclusion)\n{}", proof_dump()));
                        return out;
                    }
                };
                let best = if maximise { sols.iter().map(|a| a[obj_var]).max() } else { sols.iter().map(|a| a[obj_var]).min() };
                let Some(best) = best else {
                    out.fail("wrong-conclusion", format!("bound conclusion for an unsatisfiable model\n{}", proof_dump()));
                    return out;
                };
                // a correct bound: an atomic over the objective variable that holds at the optimum and whose
                // constant is the optimum (either orientation)
                let ok = p.var == obj_var && p.holds_val(best) && p.v == best;
                if !ok {
                    out.fail("wrong-bound-conclusion", format!("conclusion {} but the optimum of x{obj_var} is {best}\n{}", p.show(), proof_dump()));
                    return out;
                }
                out.cover("conclusion:bound");
            }
        }
    }
    if !concluded {
        out.fail("missing-conclusion", format!("solver concluded {verdict} but the proof has no conclusion line\n{}", proof_dump()));
        return out;
    }
    out.cover(format!("proof:{mode}/{}", if optimise { if unsat_sat { "unsat-sat" } else { "sat-unsat" } } else { "unsat" }));
    out.cover(format!("minimisation:{minimise}"));
    out.count("proof_steps", steps.len() as u64);
    out.nontrivial = steps.len() >= 3;
    out
}
