//! Drives the real Pumpkin library through its public API (plus the cfg-gated `verif` exports).
use std::collections::HashMap;
use std::fmt::Debug;
use std::num::NonZero;

use pumpkin_solver::branching::branchers::alternating_brancher::AlternatingBrancher;
use pumpkin_solver::branching::branchers::alternating_brancher::AlternatingStrategy;
use pumpkin_solver::branching::branchers::autonomous_search::AutonomousSearch;
use pumpkin_solver::branching::branchers::dynamic_brancher::DynamicBrancher;
use pumpkin_solver::branching::branchers::independent_variable_value_brancher::IndependentVariableValueBrancher as IVV;
use pumpkin_solver::branching::value_selection::*;
use pumpkin_solver::branching::variable_selection::*;
use pumpkin_solver::branching::Brancher;
use pumpkin_solver::branching::BrancherEvent;
use pumpkin_solver::branching::SelectionContext;
use pumpkin_solver::constraints;
use pumpkin_solver::constraints::Constraint;
use pumpkin_solver::constraints::NegatableConstraint;
use pumpkin_solver::options::*;
use pumpkin_solver::predicate;
use pumpkin_solver::predicates::Predicate;
use pumpkin_solver::results::ProblemSolution;
use pumpkin_solver::results::SolutionReference;
use pumpkin_solver::termination::TerminationCondition;
use pumpkin_solver::variables::*;
use pumpkin_solver::ConstraintOperationError;
use pumpkin_solver::Solver;
use rand::rngs::SmallRng;
use rand::Rng;
use rand::SeedableRng;

use crate::json::Json;
use crate::model::*;

pub type AV = AffineView<DomainId>;

#[derive(Clone, Copy, Debug)]
pub enum X {
    I(DomainId),
    B(Literal),
}

impl X {
    pub fn domain(&self) -> DomainId {
        match self {
            X::I(d) => *d,
            X::B(l) => l.get_true_predicate().get_domain(),
        }
    }
}

pub fn mk_view(v: &View, xs: &[X]) -> AV {
    match xs[v.var] {
        X::I(d) => d.scaled(v.s as i32).offset(v.o as i32),
        X::B(l) => l.get_integer_variable().scaled(v.s as i32).offset(v.o as i32),
    }
}

pub fn mk_lit(l: &Lit, xs: &[X]) -> Literal {
    let X::B(x) = xs[l.0] else { panic!("harness: literal over a non-bool variable") };
    if l.1 {
        x
    } else {
        !x
    }
}

pub fn cumul_opts(i: usize) -> CumulativeOptions {
    let methods = [
        CumulativePropagationMethod::TimeTablePerPoint,
        CumulativePropagationMethod::TimeTablePerPointIncremental,
        CumulativePropagationMethod::TimeTablePerPointIncrementalSynchronised,
        CumulativePropagationMethod::TimeTableOverInterval,
        CumulativePropagationMethod::TimeTableOverIntervalIncremental,
        CumulativePropagationMethod::TimeTableOverIntervalIncrementalSynchronised,
    ];
    let expl = [CumulativeExplanationType::Naive, CumulativeExplanationType::BigStep, CumulativeExplanationType::Pointwise];
    CumulativeOptions::new(i & 1 == 1, expl[(i / 2) % 3], (i / 6) & 1 == 1, methods[(i / 12) % 6], (i / 72) & 1 == 1)
}

pub fn cumul_opts_desc(i: usize) -> String {
    if i >= 144 {
        return "default".into();
    }
    format!(
        "holes={} expl={} seq={} method={} incr_backtrack={}",
        i & 1,
        ["naive", "big-step", "pointwise"][(i / 2) % 3],
        (i / 6) & 1,
        ["per-point", "per-point-incr", "per-point-incr-sync", "over-interval", "over-interval-incr", "over-interval-incr-sync"]
            [(i / 12) % 6],
        (i / 72) & 1
    )
}

fn post_generic<V>(
    s: &mut Solver,
    mk: &dyn Fn(&View) -> V,
    lit: &dyn Fn(&Lit) -> Literal,
    c: &(Con, Reif),
    tag: Option<u32>,
) -> Result<(), ConstraintOperationError>
where
    V: IntegerVariable + Clone + Debug + 'static,
{
    let tag = tag.and_then(NonZero::new);
    macro_rules! fin {
        ($cons:expr) => {{
            let cons = $cons;
            let mut p = s.add_constraint(cons);
            if let Some(t) = tag {
                p = p.with_tag(t);
            }
            match &c.1 {
                Reif::Plain => p.post(),
                Reif::Implied(l) => p.implied_by(lit(l)),
                _ => panic!("harness: constraint kind is not negatable"),
            }
        }};
    }
    macro_rules! finn {
        ($cons:expr) => {{
            let cons = $cons;
            match &c.1 {
                Reif::Negated => {
                    let mut p = s.add_constraint(cons.negation());
                    if let Some(t) = tag {
                        p = p.with_tag(t);
                    }
                    p.post()
                }
                r => {
                    let mut p = s.add_constraint(cons);
                    if let Some(t) = tag {
                        p = p.with_tag(t);
                    }
                    match r {
                        Reif::Plain => p.post(),
                        Reif::Implied(l) => p.implied_by(lit(l)),
                        Reif::Reified(l) => p.reify(lit(l)),
                        Reif::Negated => unreachable!(),
                    }
                }
            }
        }};
    }
    let vs = |t: &[View]| t.iter().map(mk).collect::<Vec<V>>();
    match &c.0 {
        Con::LinLe(t, r) => finn!(constraints::less_than_or_equals(vs(t), *r as i32)),
        Con::LinEq(t, r) => finn!(constraints::equals(vs(t), *r as i32)),
        Con::LinNe(t, r) => finn!(constraints::not_equals(vs(t), *r as i32)),
        Con::BinEq(a, b) => finn!(constraints::binary_equals(mk(a), mk(b))),
        Con::BinNe(a, b) => finn!(constraints::binary_not_equals(mk(a), mk(b))),
        Con::BinLe(a, b) => finn!(constraints::binary_less_than_or_equals(mk(a), mk(b))),
        Con::BinLt(a, b) => finn!(constraints::binary_less_than(mk(a), mk(b))),
        Con::Clause(l) => finn!(constraints::clause(l.iter().map(lit).collect::<Vec<_>>())),
        Con::Conj(l) => finn!(constraints::conjunction(l.iter().map(lit).collect::<Vec<_>>())),
        Con::Plus(a, b, cc) => fin!(constraints::plus(mk(a), mk(b), mk(cc))),
        Con::Times(a, b, cc) => fin!(constraints::times(mk(a), mk(b), mk(cc))),
        Con::Div(a, b, cc) => fin!(constraints::division(mk(a), mk(b), mk(cc))),
        Con::Abs(a, b) => fin!(constraints::absolute(mk(a), mk(b))),
        Con::Max(t, r) => fin!(constraints::maximum(vs(t), mk(r))),
        Con::Min(t, r) => fin!(constraints::minimum(vs(t), mk(r))),
        Con::Elem(i, t, r) => fin!(constraints::element(mk(i), vs(t), mk(r))),
        Con::AllDiff(t) => fin!(constraints::all_different(vs(t))),
        Con::Cumul(st, du, rq, cap, o) => {
            let du: Vec<i32> = du.iter().map(|d| *d as i32).collect();
            let rq: Vec<i32> = rq.iter().map(|d| *d as i32).collect();
            if *o >= 144 {
                fin!(constraints::cumulative(vs(st), du, rq, *cap as i32))
            } else {
                fin!(constraints::cumulative_with_options(vs(st), du, rq, *cap as i32, cumul_opts(*o)))
            }
        }
        Con::BoolLe(..) | Con::BoolEq(..) | Con::PClause(..) | Con::VClause(..) | Con::LitDef(..) => unreachable!(),
    }
}

/// Post one constraint. When every view of the constraint is a plain integer variable the constraint
/// is posted over `DomainId`s (the instantiation most users get), otherwise over affine views.
pub fn post_con(s: &mut Solver, xs: &[X], c: &(Con, Reif), tag: Option<u32>) -> Result<(), ConstraintOperationError> {
    let lit = |l: &Lit| mk_lit(l, xs);
    match &c.0 {
        Con::LitDef(..) => return Ok(()),
        Con::VClause(ps) => {
            let preds: Vec<Predicate> = ps
                .iter()
                .map(|(v, k, c)| {
                    let x = mk_view(v, xs);
                    let c = *c as i32;
                    match k {
                        PK::Ge => predicate!(x >= c),
                        PK::Le => predicate!(x <= c),
                        PK::Eq => predicate!(x == c),
                        PK::Ne => predicate!(x != c),
                    }
                })
                .collect();
            return match &c.1 {
                Reif::Plain => s.add_clause(preds),
                _ => panic!("harness: predicate clauses are posted plainly"),
            };
        }
        Con::PClause(ps) => {
            let preds: Vec<Predicate> = ps.iter().map(|p| from_mpred(p, xs)).collect();
            return match &c.1 {
                Reif::Plain => s.add_clause(preds),
                _ => panic!("harness: predicate clauses are posted plainly"),
            };
        }
        Con::BoolLe(w, l, r) => {
            let w: Vec<i32> = w.iter().map(|x| *x as i32).collect();
            let l: Vec<Literal> = l.iter().map(lit).collect();
            let mut p = s.add_constraint(constraints::boolean_less_than_or_equals(w, l, *r as i32));
            if let Some(t) = tag.and_then(NonZero::new) {
                p = p.with_tag(t);
            }
            return match &c.1 {
                Reif::Plain => p.post(),
                Reif::Implied(l) => p.implied_by(mk_lit(l, xs)),
                _ => panic!("harness: not negatable"),
            };
        }
        Con::BoolEq(w, l, r) => {
            let w: Vec<i32> = w.iter().map(|x| *x as i32).collect();
            let l: Vec<Literal> = l.iter().map(lit).collect();
            let X::I(rhs) = xs[*r] else { panic!("harness: bool_lin_eq rhs must be an integer variable") };
            let mut p = s.add_constraint(constraints::boolean_equals(w, l, rhs));
            if let Some(t) = tag.and_then(NonZero::new) {
                p = p.with_tag(t);
            }
            return match &c.1 {
                Reif::Plain => p.post(),
                Reif::Implied(l) => p.implied_by(mk_lit(l, xs)),
                _ => panic!("harness: not negatable"),
            };
        }
        _ => {}
    }
    let all_plain = c.0.views().iter().all(|v| v.is_plain() && matches!(xs[v.var], X::I(_)));
    if all_plain {
        let mk = |v: &View| match xs[v.var] {
            X::I(d) => d,
            X::B(_) => unreachable!(),
        };
        post_generic::<DomainId>(s, &mk, &lit, c, tag)
    } else {
        let mk = |v: &View| mk_view(v, xs);
        post_generic::<AV>(s, &mk, &lit, c, tag)
    }
}

pub struct Built {
    pub solver: Solver,
    pub xs: Vec<X>,
    /// index of the first constraint whose posting returned an infeasibility error
    pub post_err: Option<usize>,
}

pub fn new_vars(s: &mut Solver, m: &Model, from: usize, named: bool) -> Vec<X> {
    let mut made: Vec<X> = vec![];
    for (k, v) in m.vars[from..].iter().enumerate() {
        let i = from + k;
        // a literal defined by a predicate over an earlier variable
        let def = m.cons.iter().find_map(|c| match &c.0 {
            Con::LitDef(b, p) if *b == i => Some(*p),
            _ => None,
        });
        if let Some(p) = def {
            assert!(p.var >= from && p.var < i, "harness: literal definitions refer to an earlier variable of the same batch");
            let d = made[p.var - from].domain();
            let val = p.v as i32;
            let pred = match p.k {
                PK::Ge => predicate!(d >= val),
                PK::Le => predicate!(d <= val),
                PK::Eq => predicate!(d == val),
                PK::Ne => predicate!(d != val),
            };
            made.push(X::B(s.new_literal_for_predicate(pred)));
            continue;
        }
        made.push({
            match (v.kind, named) {
                (VarKind::Bool, false) => X::B(s.new_literal()),
                (VarKind::Bool, true) => X::B(s.new_named_literal(format!("x{i}"))),
                (VarKind::Sparse, false) => X::I(s.new_sparse_integer(v.dom.iter().map(|x| *x as i32).collect::<Vec<_>>())),
                (VarKind::Sparse, true) => {
                    X::I(s.new_named_sparse_integer(v.dom.iter().map(|x| *x as i32).collect::<Vec<_>>(), format!("x{i}")))
                }
                (VarKind::Interval, false) => X::I(s.new_bounded_integer(v.lo() as i32, v.hi() as i32)),
                (VarKind::Interval, true) => X::I(s.new_named_bounded_integer(v.lo() as i32, v.hi() as i32, format!("x{i}"))),
            }
        });
    }
    made
}

pub fn build(m: &Model, opts: SolverOptions, upto: usize, tagged: bool, named: bool) -> Built {
    let mut solver = Solver::with_options(opts);
    let xs = new_vars(&mut solver, m, 0, named);
    let mut post_err = None;
    // Tags only label constraints (for proofs and the event judges), but `with_tag(..)` is a posting path
    // of its own for `post`, `implied_by` and `reify`: a third of the models takes it also where the
    // property at hand does not need tags.
    let tagged = tagged || m.fingerprint() % 3 == 0;
    for (i, c) in m.cons.iter().enumerate().take(upto) {
        let tag = if tagged && c.0.taggable() { Some(i as u32 + 1) } else { None };
        if post_con(&mut solver, &xs, c, tag).is_err() {
            post_err = Some(i);
            break;
        }
    }
    Built { solver, xs, post_err }
}

/// Read a complete assignment out of a solution; an unfixed variable makes Pumpkin panic, which is
/// reported as a partial solution.
pub fn read_solution<S: ProblemSolution>(sol: &S, xs: &[X]) -> Result<Vec<i64>, String> {
    let r = std::panic::catch_unwind(std::panic::AssertUnwindSafe(|| {
        xs.iter()
            .map(|x| match x {
                X::I(d) => sol.get_integer_value(*d) as i64,
                X::B(l) => sol.get_literal_value(*l) as i64,
            })
            .collect::<Vec<i64>>()
    }));
    r.map_err(|_| "solution is partial: reading a variable's value panicked".to_string())
}

pub fn read_solution_ref(sol: SolutionReference, xs: &[X]) -> Result<Vec<i64>, String> {
    read_solution(&sol, xs)
}

pub fn dom_map(xs: &[X]) -> HashMap<u32, usize> {
    xs.iter().enumerate().map(|(i, x)| (x.domain().id, i)).collect()
}

pub fn to_mpred(p: &Predicate, map: &HashMap<u32, usize>) -> Option<MPred> {
    let (d, k, v) = match *p {
        Predicate::LowerBound { domain_id, lower_bound } => (domain_id, PK::Ge, lower_bound),
        Predicate::UpperBound { domain_id, upper_bound } => (domain_id, PK::Le, upper_bound),
        Predicate::Equal { domain_id, equality_constant } => (domain_id, PK::Eq, equality_constant),
        Predicate::NotEqual { domain_id, not_equal_constant } => (domain_id, PK::Ne, not_equal_constant),
    };
    map.get(&d.id).map(|&var| MPred { var, k, v: v as i64 })
}

/// Predicates over the always-true dummy variable (domain id 0, fixed to 1) evaluate to a constant.
pub fn const_pred(p: &Predicate) -> Option<bool> {
    if p.get_domain().id != 0 {
        return None;
    }
    Some(match *p {
        Predicate::LowerBound { lower_bound, .. } => 1 >= lower_bound,
        Predicate::UpperBound { upper_bound, .. } => 1 <= upper_bound,
        Predicate::Equal { equality_constant, .. } => 1 == equality_constant,
        Predicate::NotEqual { not_equal_constant, .. } => 1 != not_equal_constant,
    })
}

pub fn from_mpred(p: &MPred, xs: &[X]) -> Predicate {
    let d = xs[p.var].domain();
    let v = p.v as i32;
    match p.k {
        PK::Ge => predicate!(d >= v),
        PK::Le => predicate!(d <= v),
        PK::Eq => predicate!(d == v),
        PK::Ne => predicate!(d != v),
    }
}

// ---------------------------------------------------------------------------------------------
// termination conditions

/// Never fires within `budget` polls; firing means the logical step budget was exhausted.
pub struct Budget {
    pub left: u64,
    pub polls: u64,
}
impl Budget {
    pub fn new(budget: u64) -> Budget {
        Budget { left: budget, polls: 0 }
    }
    pub fn for_model(m: &Model) -> Budget {
        let d = m.space().min(1e7);
        Budget::new((50.0 * (d + 10.0) * (m.vars.len() as f64 + 1.0)) as u64)
    }
    /// Budget for a full iteration. Chronological search without learning and without restarts always
    /// terminates, but every `next_solution` restarts at the root and walks past the solutions blocked
    /// so far, which is quadratic in the number of solutions: the limit is only a safety net there.
    pub fn for_iteration(m: &Model, o: &OptSpec) -> Budget {
        let b = Budget::for_model(m);
        if o.no_learning && o.no_restarts {
            Budget::new(b.left.saturating_mul(400).min(4_000_000_000))
        } else {
            b
        }
    }
    pub fn exhausted(&self) -> bool {
        self.left == 0
    }
}
impl TerminationCondition for Budget {
    fn should_stop(&mut self) -> bool {
        self.polls += 1;
        if self.left == 0 {
            true
        } else {
            self.left -= 1;
            false
        }
    }
}

/// Fires exactly once, at poll index `at` (0-based), and never again (up to a safety cap).
pub struct StopAt {
    pub polls: u64,
    pub at: Option<u64>,
    pub fired: bool,
    pub cap: u64,
}
impl StopAt {
    pub fn new(at: Option<u64>, cap: u64) -> StopAt {
        StopAt { polls: 0, at, fired: false, cap }
    }
}
impl TerminationCondition for StopAt {
    fn should_stop(&mut self) -> bool {
        let p = self.polls;
        self.polls += 1;
        if !self.fired && self.at == Some(p) {
            self.fired = true;
            return true;
        }
        p > self.cap
    }
}

// ---------------------------------------------------------------------------------------------
// solver options

#[derive(Clone, Debug)]
pub struct OptSpec {
    pub seed: u64,
    pub no_learning: bool,
    pub minimise: bool,
    pub min_conf_restart: u64,
    pub base_interval: u64,
    pub no_restarts: bool,
    pub seq: u8,
    pub geometric_coef: f64,
    pub lbd_coef: f64,
    pub num_assigned_coef: f64,
    pub num_assigned_window: u64,
    pub nogood_limit: usize,
    pub lbd_threshold: u32,
    pub sort_by_activity: bool,
    pub tiny_max_activity: bool,
    pub is_default: bool,
}

impl OptSpec {
    pub fn default_with_seed(seed: u64) -> OptSpec {
        OptSpec {
            seed,
            no_learning: false,
            minimise: true,
            min_conf_restart: 0,
            base_interval: 0,
            no_restarts: false,
            seq: 0,
            geometric_coef: 0.0,
            lbd_coef: 0.0,
            num_assigned_coef: 0.0,
            num_assigned_window: 0,
            nogood_limit: 0,
            lbd_threshold: 0,
            sort_by_activity: false,
            tiny_max_activity: false,
            is_default: true,
        }
    }
    pub fn random(r: &mut SmallRng, seed: u64) -> OptSpec {
        OptSpec {
            seed,
            no_learning: r.gen_range(0..5) == 0,
            minimise: r.gen_bool(0.5),
            min_conf_restart: r.gen_range(0..4),
            base_interval: r.gen_range(1..6),
            no_restarts: r.gen_range(0..5) == 0,
            seq: r.gen_range(0..3),
            geometric_coef: 1.0 + r.gen_range(1..10) as f64 / 10.0,
            lbd_coef: [0.5, 1.0, 1.25][r.gen_range(0..3)],
            num_assigned_coef: [0.5, 1.4, 10.0][r.gen_range(0..3)],
            num_assigned_window: r.gen_range(1..50),
            nogood_limit: if r.gen_range(0..10) < 7 { r.gen_range(0..7) } else { 4000 },
            lbd_threshold: r.gen_range(0..4),
            sort_by_activity: r.gen_bool(0.5),
            tiny_max_activity: r.gen_range(0..4) == 0,
            is_default: false,
        }
    }
    pub fn to_options(&self) -> SolverOptions {
        let mut o = SolverOptions::default();
        o.random_generator = SmallRng::seed_from_u64(self.seed);
        if self.is_default {
            return o;
        }
        if self.no_learning {
            o.conflict_resolver = ConflictResolver::NoLearning;
        }
        o.learning_clause_minimisation = self.minimise;
        o.restart_options.min_num_conflicts_before_first_restart = self.min_conf_restart;
        o.restart_options.base_interval = self.base_interval;
        o.restart_options.no_restarts = self.no_restarts;
        match self.seq {
            0 => o.restart_options.sequence_generator_type = SequenceGeneratorType::Constant,
            1 => o.restart_options.sequence_generator_type = SequenceGeneratorType::Luby,
            _ => {
                o.restart_options.sequence_generator_type = SequenceGeneratorType::Geometric;
                o.restart_options.geometric_coef = Some(self.geometric_coef);
            }
        }
        o.restart_options.lbd_coef = self.lbd_coef;
        o.restart_options.num_assigned_coef = self.num_assigned_coef;
        o.restart_options.num_assigned_window = self.num_assigned_window;
        o.learning_options.limit_num_high_lbd_nogoods = self.nogood_limit;
        o.learning_options.lbd_threshold = self.lbd_threshold;
        o.learning_options.nogood_sorting_strategy =
            if self.sort_by_activity { LearnedNogoodSortingStrategy::Activity } else { LearnedNogoodSortingStrategy::Lbd };
        if self.tiny_max_activity {
            o.learning_options.max_activity = 4.0;
        }
        o
    }
    pub fn to_json(&self) -> Json {
        if self.is_default {
            return Json::obj([("default", Json::Bool(true)), ("seed", Json::Int(self.seed as i128))]);
        }
        Json::obj([
            ("seed", Json::Int(self.seed as i128)),
            ("resolver", Json::str(if self.no_learning { "no-learning" } else { "uip" })),
            ("minimise", Json::Bool(self.minimise)),
            ("min_conflicts_before_first_restart", Json::Int(self.min_conf_restart as i128)),
            ("base_interval", Json::Int(self.base_interval as i128)),
            ("no_restarts", Json::Bool(self.no_restarts)),
            ("sequence", Json::str(["constant", "luby", "geometric"][self.seq as usize])),
            ("geometric_coef", Json::Float(self.geometric_coef)),
            ("lbd_coef", Json::Float(self.lbd_coef)),
            ("num_assigned_coef", Json::Float(self.num_assigned_coef)),
            ("num_assigned_window", Json::Int(self.num_assigned_window as i128)),
            ("limit_num_high_lbd_nogoods", Json::Int(self.nogood_limit as i128)),
            ("lbd_threshold", Json::Int(self.lbd_threshold as i128)),
            ("sorting", Json::str(if self.sort_by_activity { "activity" } else { "lbd" })),
            ("tiny_max_activity", Json::Bool(self.tiny_max_activity)),
        ])
    }
    /// Option tuples on which bounded progress is not guaranteed by design of the search: restarts
    /// are on while (a) learned nogoods are deleted above a tiny limit or (b) nothing is learned at
    /// all, so a restart can discard all progress.
    pub fn class_thrash(&self) -> bool {
        !self.is_default && !self.no_restarts && (self.no_learning || self.nogood_limit <= 6)
    }
}

// ---------------------------------------------------------------------------------------------
// branchers

/// Boxed brancher that forwards every hook (including `synchronise`) to the wrapped brancher.
pub struct BoxB(pub Box<dyn Brancher>);

impl Brancher for BoxB {
    fn next_decision(&mut self, c: &mut SelectionContext) -> Option<Predicate> {
        self.0.next_decision(c)
    }
    fn on_conflict(&mut self) {
        self.0.on_conflict()
    }
    fn on_backtrack(&mut self) {
        self.0.on_backtrack()
    }
    fn on_solution(&mut self, s: SolutionReference) {
        self.0.on_solution(s)
    }
    fn on_unassign_integer(&mut self, v: DomainId, x: i32) {
        self.0.on_unassign_integer(v, x)
    }
    fn on_appearance_in_conflict_predicate(&mut self, p: Predicate) {
        self.0.on_appearance_in_conflict_predicate(p)
    }
    fn on_restart(&mut self) {
        self.0.on_restart()
    }
    fn synchronise(&mut self, a: &pumpkin_solver::verif::Assignments) {
        self.0.synchronise(a)
    }
    fn is_restart_pointless(&mut self) -> bool {
        self.0.is_restart_pointless()
    }
    fn subscribe_to_events(&self) -> Vec<BrancherEvent> {
        self.0.subscribe_to_events()
    }
}

pub const VAR_SELECTORS: [&str; 11] = [
    "AntiFirstFail",
    "FirstFail",
    "InputOrder",
    "Largest",
    "MaxRegret",
    "MostConstrained",
    "Occurrence",
    "ProportionalDomainSize",
    "RandomSelector",
    "Smallest",
    "InputOrder(permuted)",
];
pub const VAL_SELECTORS: [&str; 14] = [
    "InDomainInterval",
    "InDomainMax",
    "InDomainMedian",
    "InDomainMiddle",
    "InDomainMin",
    "InDomainRandom",
    "InDomainSplit",
    "InDomainSplitRandom",
    "OutDomainMax",
    "OutDomainMedian",
    "OutDomainMin",
    "OutDomainRandom",
    "RandomSplitter",
    "ReverseInDomainSplit",
];

#[derive(Clone, Debug)]
pub enum BrSpec {
    Default,
    /// variable selector index, value selector index, permutation seed
    Ivv(usize, usize, u64),
    /// dynamic brancher over [ivv over first half, ivv over second half]
    Dynamic(usize, usize, u64),
    /// alternating(strategy, ivv)
    Alternating(usize, usize, usize, u64),
    /// AutonomousSearch with an explicit backup brancher
    Autonomous(usize, usize, u64),
}

impl BrSpec {
    pub fn random(r: &mut SmallRng) -> BrSpec {
        let vi = r.gen_range(0..11);
        let wi = r.gen_range(0..14);
        let sd = r.gen();
        match r.gen_range(0..10) {
            0..=3 => BrSpec::Default,
            4..=6 => BrSpec::Ivv(vi, wi, sd),
            7 => BrSpec::Dynamic(vi, wi, sd),
            8 => BrSpec::Alternating(r.gen_range(0..4), vi, wi, sd),
            _ => BrSpec::Autonomous(vi, wi, sd),
        }
    }
    pub fn desc(&self) -> String {
        match self {
            BrSpec::Default => "default".into(),
            BrSpec::Ivv(v, w, _) => format!("ivv({},{})", VAR_SELECTORS[*v], VAL_SELECTORS[*w]),
            BrSpec::Dynamic(v, w, _) => format!("dynamic(ivv({},{}) x2, by seed also nested)", VAR_SELECTORS[*v], VAL_SELECTORS[*w]),
            BrSpec::Alternating(s, v, w, _) => format!(
                "alternating({}, ivv({},{}))",
                ["EverySolution", "EveryOtherSolution", "SwitchToDefaultAfterFirstSolution", "EveryRestart"][*s],
                VAR_SELECTORS[*v],
                VAL_SELECTORS[*w]
            ),
            BrSpec::Autonomous(v, w, _) => format!("autonomous(backup ivv({},{}))", VAR_SELECTORS[*v], VAL_SELECTORS[*w]),
        }
    }
    pub fn uses(&self, var_sel: &str) -> bool {
        self.desc().contains(var_sel)
    }
}

fn var_selector(vi: usize, vars: &[DomainId], sd: u64) -> Box<dyn VariableSelector<DomainId>> {
    let mut r = SmallRng::seed_from_u64(sd);
    let occ: Vec<u32> = vars.iter().map(|_| r.gen_range(1..4)).collect();
    match vi {
        0 => Box::new(AntiFirstFail::new(vars)),
        1 => Box::new(FirstFail::new(vars)),
        2 => Box::new(InputOrder::new(vars)),
        3 => Box::new(Largest::new(vars)),
        4 => Box::new(MaxRegret::new(vars)),
        5 => pumpkin_solver::verif::most_constrained(vars, &occ),
        6 => Box::new(Occurrence::new(vars, &occ)),
        7 => Box::new(ProportionalDomainSize::new(vars)),
        8 => Box::new(RandomSelector::new(vars.to_vec())),
        9 => Box::new(Smallest::new(vars)),
        _ => {
            let mut p = vars.to_vec();
            for i in (1..p.len()).rev() {
                let j = r.gen_range(0..=i);
                p.swap(i, j);
            }
            Box::new(InputOrder::new(&p))
        }
    }
}

fn val_selector(wi: usize) -> Box<dyn ValueSelector<DomainId>> {
    match wi {
        0 => Box::new(InDomainInterval),
        1 => Box::new(InDomainMax),
        2 => Box::new(InDomainMedian),
        3 => Box::new(InDomainMiddle),
        4 => Box::new(InDomainMin),
        5 => Box::new(InDomainRandom),
        6 => Box::new(InDomainSplit),
        7 => Box::new(InDomainSplitRandom),
        8 => Box::new(OutDomainMax),
        9 => Box::new(OutDomainMedian),
        10 => Box::new(OutDomainMin),
        11 => Box::new(OutDomainRandom),
        12 => Box::new(RandomSplitter),
        _ => Box::new(ReverseInDomainSplit),
    }
}

fn ivv(vi: usize, wi: usize, vars: &[DomainId], sd: u64) -> IVV<DomainId, DynamicVariableSelector<DomainId>, DynamicValueSelector<DomainId>> {
    IVV::new(DynamicVariableSelector::new(var_selector(vi, vars, sd)), DynamicValueSelector::new(val_selector(wi)))
}

/// Build the brancher; returns it together with the set of variables it is responsible for.
pub fn make_brancher(spec: &BrSpec, solver: &Solver, xs: &[X]) -> BoxB {
    let vars: Vec<DomainId> = xs.iter().map(|x| x.domain()).collect();
    match spec {
        BrSpec::Default => BoxB(Box::new(solver.default_brancher())),
        BrSpec::Ivv(v, w, sd) => BoxB(Box::new(ivv(*v, *w, &vars, *sd))),
        BrSpec::Dynamic(v, w, sd) if (sd >> 1) % 3 == 0 && vars.len() >= 3 => {
            // a dynamic brancher nested in a dynamic brancher
            let t = vars.len() / 3;
            let inner = DynamicBrancher::new(vec![
                Box::new(ivv(*v, *w, &vars[..t], *sd)) as Box<dyn Brancher>,
                Box::new(ivv(*v, *w, &vars[t..2 * t], sd.wrapping_add(1))),
            ]);
            let outer = DynamicBrancher::new(vec![Box::new(inner) as Box<dyn Brancher>, Box::new(ivv(*v, *w, &vars[2 * t..], sd.wrapping_add(2)))]);
            BoxB(Box::new(outer))
        }
        BrSpec::Dynamic(v, w, sd) => {
            let h = vars.len() / 2;
            let mut bs: Vec<Box<dyn Brancher>> = vec![];
            if h > 0 {
                bs.push(Box::new(ivv(*v, *w, &vars[..h], *sd)));
            }
            let last: Box<dyn Brancher> = Box::new(ivv(*v, *w, &vars[h..], sd.wrapping_add(1)));
            if sd % 2 == 0 || bs.is_empty() {
                bs.push(last);
                BoxB(Box::new(DynamicBrancher::new(bs)))
            } else {
                // the other construction path
                let mut d = DynamicBrancher::new(bs);
                d.add_brancher(last);
                BoxB(Box::new(d))
            }
        }
        BrSpec::Alternating(s, v, w, sd) => {
            let st = [
                AlternatingStrategy::EverySolution,
                AlternatingStrategy::EveryOtherSolution,
                AlternatingStrategy::SwitchToDefaultAfterFirstSolution,
                AlternatingStrategy::EveryRestart,
            ][*s];
            BoxB(Box::new(AlternatingBrancher::new(solver, ivv(*v, *w, &vars, *sd), st)))
        }
        BrSpec::Autonomous(v, w, sd) => BoxB(Box::new(AutonomousSearch::new(ivv(*v, *w, &vars, *sd)))),
    }
}
