//! C07, C08, C09, C17, C18: configuration / variant independence, explanations, branchers.
use std::collections::BTreeSet;

use pumpkin_solver::results::solution_iterator::IteratedSolution;
use pumpkin_solver::results::SatisfactionResult;
use rand::rngs::SmallRng;
use rand::Rng;
use rand::SeedableRng;

use crate::core::*;
use crate::drive::*;
use crate::events;
use crate::json::Json;
use crate::model::*;
use crate::props_a::*;

/// Build a solver for `m` under `cfg` and iterate to the end. Returns the yielded set; every
/// irregularity (duplicate, non-solution, budget) is reported through `out`.
pub fn iterate_all(out: &mut Outcome, m: &Model, cfg: &Config, tagged: bool, what: &str) -> Option<BTreeSet<Vec<i64>>> {
    let mut b = build(m, cfg.opts.to_options(), m.cons.len(), tagged, false);
    if check_post_err(out, m, &b) {
        return if out.failed() { None } else { Some(BTreeSet::new()) };
    }
    let mut brancher = make_brancher(&cfg.br, &b.solver, &b.xs);
    let mut t = Budget::for_iteration(m, &cfg.opts);
    let mut seen = BTreeSet::new();
    let mut it = b.solver.get_solution_iterator(&mut brancher, &mut t);
    loop {
        match it.next_solution() {
            IteratedSolution::Solution(sol, _, _) => match read_solution(&sol, &b.xs) {
                Ok(a) => {
                    if !m.satisfies(&a) {
                        out.fail("non-solution-yielded", format!("{what}: {a:?}: {}", m.why_not(&a)));
                        return None;
                    }
                    if !seen.insert(a.clone()) {
                        out.fail("duplicate-solution", format!("{what}: {a:?} yielded twice"));
                        return None;
                    }
                }
                Err(e) => {
                    out.fail("partial-solution", format!("{what}: {e}"));
                    return None;
                }
            },
            IteratedSolution::Finished | IteratedSolution::Unsatisfiable => break,
            IteratedSolution::Unknown => {
                out.fail("budget-exhausted", format!("{what}: no answer within the poll budget"));
                return None;
            }
        }
    }
    Some(seen)
}

pub fn compare_sets(out: &mut Outcome, expected: &BTreeSet<Vec<i64>>, got: &BTreeSet<Vec<i64>>, what: &str) {
    if let Some(a) = expected.difference(got).next() {
        out.fail("solution-missing", format!("{what}: {a:?} is a solution but was never yielded ({} of {} found)", got.len(), expected.len()));
    } else if let Some(a) = got.difference(expected).next() {
        out.fail("non-solution-yielded", format!("{what}: {a:?} is not a solution"));
    }
}

// ---------------------------------------------------------------------------------------------
// C07: the same model under K configurations

pub fn run_c07(case: &Case) -> Outcome {
    let m = &case.model;
    let mut out = Outcome::new(m);
    let mut r = SmallRng::seed_from_u64(case.sub);
    let k = case.extra.get("k").as_i64().max(2) as usize;
    let expected = m.enumerate();
    if expected.len() > 400 {
        out.skip = Some("more than 400 solutions".into());
        return out;
    }
    let cfgs = cfgs_c07(&mut r, k);
    let mut max_conf = 0;
    let mut descs = vec![];
    for (ci, cfg) in cfgs.iter().enumerate() {
        let mut sub = Outcome::default();
        cfg.label(&mut sub);
        descs.push(cfg.to_json());
        pumpkin_solver::verif::enable();
        let res = guard(|| {
            let mut o = Outcome::default();
            if let Some(got) = iterate_all(&mut o, m, cfg, false, &format!("configuration #{ci}")) {
                if !o.failed() {
                    compare_sets(&mut o, &expected, &got, &format!("configuration #{ci}"));
                }
            }
            o
        });
        let ev = pumpkin_solver::verif::drain();
        pumpkin_solver::verif::disable();
        let st = events::stats(&ev);
        max_conf = max_conf.max(st.conflicts);
        out.count("configs_run", 1);
        out.count("ev.conflicts", st.conflicts);
        out.count("ev.restarts", st.restarts);
        out.count("ev.learned", st.learned);
        if st.restarts > 0 {
            out.count("configs_with_restarts", 1);
        }
        let failed_before = out.failed();
        merge(&mut out, res);
        if out.failed() && !failed_before {
            // the classes of the failing configuration identify the input class
            for c in sub.classes {
                out.class(c);
            }
            out.config = Json::obj([("failing_configuration", cfg.to_json()), ("index", Json::Int(ci as i128))]);
            break;
        }
        out.cover(format!("resolver:{}", if cfg.opts.no_learning { "no-learning" } else { "uip" }));
        if !cfg.opts.is_default {
            out.cover(format!("sequence:{}", ["constant", "luby", "geometric"][cfg.opts.seq as usize]));
            out.cover(format!("sorting:{}", if cfg.opts.sort_by_activity { "activity" } else { "lbd" }));
            out.cover(format!("minimise:{}", cfg.opts.minimise));
            out.cover(format!("no_restarts:{}", cfg.opts.no_restarts));
        }
        out.cover(format!("brancher:{}", cfg.br.desc().split('(').next().unwrap()));
    }
    if !out.failed() {
        out.config = Json::Arr(descs);
    }
    out.nontrivial = max_conf >= 3;
    out
}

/// Deep-chain models: the solution set is too large to iterate under every configuration; instead
/// each configuration answers satisfiability and minimises / maximises the counting variable (the
/// last variable of the model), and the answers are compared with the reference enumeration.
pub fn run_c07_deep(case: &Case) -> Outcome {
    use pumpkin_solver::optimisation::linear_sat_unsat::LinearSatUnsat;
    use pumpkin_solver::optimisation::linear_unsat_sat::LinearUnsatSat;
    use pumpkin_solver::optimisation::OptimisationDirection;
    use pumpkin_solver::results::OptimisationResult;
    use pumpkin_solver::results::SolutionReference;
    use pumpkin_solver::Solver;
    let m = &case.model;
    let mut out = Outcome::new(m);
    let mut r = SmallRng::seed_from_u64(case.sub);
    let k = (case.extra.get("k").as_i64().max(2) as usize).min(12);
    let sols = m.enumerate();
    let z = m.vars.len() - 1;
    let lo = sols.iter().map(|a| a[z]).min();
    let hi = sols.iter().map(|a| a[z]).max();
    let mut max_conf = 0;
    let mut descs = vec![];
    for ci in 0..k {
        let cfg = if ci % 4 == 3 { Config::random_progressing(&mut r) } else { deep_chain_config(&mut r) };
        descs.push(cfg.to_json());
        let maximise = r.gen_bool(0.5);
        let unsat_sat = r.gen_bool(0.3);
        let fresh = r.gen_bool(0.5);
        let what = format!(
            "configuration #{ci} ({} {}, {})",
            if unsat_sat { "unsat-sat" } else { "sat-unsat" },
            if maximise { "max" } else { "min" },
            if fresh { "fresh solver" } else { "same solver as the satisfy call" }
        );
        pumpkin_solver::verif::enable();
        let res = guard(|| {
            let mut o = Outcome::default();
            // (a) satisfiability
            let mut b = build(m, cfg.opts.to_options(), m.cons.len(), false, false);
            if check_post_err(&mut o, m, &b) {
                return o;
            }
            let mut brancher = make_brancher(&cfg.br, &b.solver, &b.xs);
            let mut t = Budget::for_model(m);
            match b.solver.satisfy(&mut brancher, &mut t) {
                SatisfactionResult::Satisfiable(sol) => {
                    let _ = check_solution(&mut o, m, &read_solution(&sol, &b.xs), &what);
                }
                SatisfactionResult::Unsatisfiable => {
                    if !sols.is_empty() {
                        o.fail("unsat-but-satisfiable", format!("{what}: Unsatisfiable but the model has {} solutions", sols.len()));
                    }
                }
                SatisfactionResult::Unknown => o.fail("budget-exhausted", format!("{what}: no verdict within the poll budget")),
            }
            if o.failed() {
                return o;
            }
            // (b) optimum of the counting variable, on a fresh solver or on the same one (which keeps
            // the nogoods learned so far)
            if fresh {
                b = build(m, cfg.opts.to_options(), m.cons.len(), false, false);
                if b.post_err.is_some() {
                    return o;
                }
                brancher = make_brancher(&cfg.br, &b.solver, &b.xs);
            }
            let mut t = Budget::for_model(m);
            let dir = if maximise { OptimisationDirection::Maximise } else { OptimisationDirection::Minimise };
            let obj = mk_view(&View::plain(z), &b.xs);
            let cb = |_: &Solver, _: SolutionReference, _: &BoxB| {};
            let res = if unsat_sat {
                b.solver.optimise(&mut brancher, &mut t, LinearUnsatSat::new(dir, obj, cb))
            } else {
                b.solver.optimise(&mut brancher, &mut t, LinearSatUnsat::new(dir, obj, cb))
            };
            let best = if maximise { hi } else { lo };
            match res {
                OptimisationResult::Optimal(sol) => {
                    let a = read_solution(&sol, &b.xs);
                    if check_solution(&mut o, m, &a, &what) {
                        let v = a.unwrap()[z];
                        if Some(v) != best {
                            o.fail("wrong-optimum", format!("{what}: Optimal with objective {v}, true optimum {best:?}"));
                        }
                    }
                }
                OptimisationResult::Unsatisfiable => {
                    if best.is_some() {
                        o.fail("unsat-but-satisfiable", format!("{what}: Unsatisfiable but the model has {} solutions", sols.len()));
                    }
                }
                OptimisationResult::Satisfiable(_) | OptimisationResult::Unknown => {
                    o.fail("budget-exhausted", format!("{what}: no optimality verdict within the poll budget"));
                }
            }
            o
        });
        let ev = pumpkin_solver::verif::drain();
        pumpkin_solver::verif::disable();
        let st = events::stats(&ev);
        max_conf = max_conf.max(st.conflicts);
        out.count("configs_run", 1);
        out.count("ev.conflicts", st.conflicts);
        out.count("ev.restarts", st.restarts);
        out.count("ev.learned", st.learned);
        merge(&mut out, res);
        if out.failed() {
            cfg.label(&mut out);
            out.config = Json::obj([("failing_configuration", cfg.to_json()), ("index", Json::Int(ci as i128))]);
            break;
        }
        out.cover(format!("deep-chain:{}", if unsat_sat { "unsat-sat" } else { "sat-unsat" }));
    }
    if !out.failed() {
        out.config = Json::Arr(descs);
    }
    out.nontrivial = max_conf >= 3;
    out
}

// ---------------------------------------------------------------------------------------------
// C08: cumulative under option tuples

pub fn with_cumul_opt(m: &Model, opt: usize) -> Model {
    let mut m2 = m.clone();
    for c in m2.cons.iter_mut() {
        if let Con::Cumul(_, _, _, _, o) = &mut c.0 {
            *o = opt;
        }
    }
    m2
}

pub fn run_c08(case: &Case) -> Outcome {
    let m0 = &case.model;
    let mut out = Outcome::new(m0);
    let mut r = SmallRng::seed_from_u64(case.sub);
    let expected = m0.enumerate();
    if expected.len() > 600 {
        out.skip = Some("more than 600 solutions".into());
        return out;
    }
    let nopts = case.extra.get("nopts").as_i64().max(1) as usize;
    let opts: Vec<usize> = if nopts >= 144 {
        (0..144).collect()
    } else {
        let first = case.extra.get("first_opt").as_i64() as usize;
        // a deterministic stride through the option space so that a run covers all 144 tuples
        (0..nopts).map(|i| (first + i * 37) % 144).collect()
    };
    let mut any_events = false;
    for &o in &opts {
        let m = with_cumul_opt(m0, o);
        let seed = r.gen();
        let cfg = Config { opts: OptSpec::default_with_seed(seed), br: if r.gen_bool(0.5) { BrSpec::Default } else { BrSpec::Ivv(r.gen_range(0..11), r.gen_range(0..14), r.gen()) } };
        pumpkin_solver::verif::enable();
        let mut map = Default::default();
        let res = guard(|| {
            let mut o2 = Outcome::default();
            let mut b = build(&m, cfg.opts.to_options(), m.cons.len(), true, false);
            map = dom_map(&b.xs);
            if check_post_err(&mut o2, &m, &b) {
                return o2;
            }
            let mut brancher = make_brancher(&cfg.br, &b.solver, &b.xs);
            let mut t = Budget::for_model(&m);
            let mut seen = BTreeSet::new();
            let mut it = b.solver.get_solution_iterator(&mut brancher, &mut t);
            loop {
                match it.next_solution() {
                    IteratedSolution::Solution(sol, _, _) => match read_solution(&sol, &b.xs) {
                        Ok(a) => {
                            if !m.satisfies(&a) {
                                o2.fail("non-solution-yielded", format!("{a:?}: {}", m.why_not(&a)));
                                return o2;
                            }
                            if !seen.insert(a.clone()) {
                                o2.fail("duplicate-solution", format!("{a:?} yielded twice"));
                                return o2;
                            }
                        }
                        Err(e) => {
                            o2.fail("partial-solution", e);
                            return o2;
                        }
                    },
                    IteratedSolution::Finished | IteratedSolution::Unsatisfiable => break,
                    IteratedSolution::Unknown => {
                        o2.fail("budget-exhausted", "no answer within the poll budget");
                        return o2;
                    }
                }
            }
            compare_sets(&mut o2, &expected, &seen, "iteration");
            o2
        });
        let ev = pumpkin_solver::verif::drain();
        pumpkin_solver::verif::disable();
        let failed_before = out.failed();
        merge(&mut out, res);
        if !out.failed() {
            // explanation judge on the cumulative propagators' events
            let cum_ev: Vec<_> = ev
                .iter()
                .filter(|e| match e {
                    pumpkin_solver::verif::Event::Propagation { tag: Some(t), .. }
                    | pumpkin_solver::verif::Event::Conflict { tag: Some(t), .. }
                    | pumpkin_solver::verif::Event::AnalysisReason { tag: Some(t), explicit: true, .. } => {
                        matches!(m.cons[*t as usize - 1].0, Con::Cumul(..))
                    }
                    _ => false,
                })
                .cloned()
                .collect();
            any_events |= !cum_ev.is_empty();
            let mut tables = events::Tables::new(&m, 20_000);
            events::check_reasons(&mut out, &mut tables, &cum_ev, &map, &events::ReasonCheckCfg { sols: None, max_events: 300 });
        }
        if out.failed() && !failed_before {
            out.class(format!("cumulative.opt.{}", o));
            for part in cumul_opts_desc(o).split(' ') {
                out.class(format!("cumulative.{part}"));
            }
            out.config = Json::obj([("cumulative_options", Json::str(cumul_opts_desc(o))), ("option_index", Json::Int(o as i128)), ("solver", cfg.to_json())]);
            break;
        }
        out.count("option_tuples_run", 1);
        out.cover(format!("opt:{o}"));
        let st = events::stats(&ev);
        out.count("ev.conflicts", st.conflicts);
        out.count("ev.propagations", st.propagations);
    }
    out.nontrivial = expected.len() >= 2 || any_events;
    out
}

// ---------------------------------------------------------------------------------------------
// C09: reification semantics

pub fn run_c09(case: &Case) -> Outcome {
    let m = &case.model;
    let mut out = Outcome::new(m);
    let mut r = SmallRng::seed_from_u64(case.sub);
    let expected = m.enumerate();
    if expected.len() > 1500 {
        out.skip = Some("more than 1500 solutions".into());
        return out;
    }
    // event orders: input-order branchers over random permutations with random value selectors, plus
    // the default brancher
    let cfg = cfg_c09(&mut r);
    cfg.label(&mut out);
    // half of the cases post every taggable constraint through `with_tag(..)` (its own posting path for
    // `post`, `implied_by` and `reify`)
    let tagged = r.gen_bool(0.5);
    out.cover(if tagged { "posting:tagged" } else { "posting:untagged" });
    pumpkin_solver::verif::enable();
    let res = guard(|| {
        let mut o = Outcome::default();
        if let Some(got) = iterate_all(&mut o, m, &cfg, tagged, "iteration") {
            if !o.failed() {
                compare_sets(&mut o, &expected, &got, "iteration");
            }
        }
        o
    });
    let ev = pumpkin_solver::verif::drain();
    pumpkin_solver::verif::disable();
    merge(&mut out, res);
    for (c, re) in &m.cons {
        let st = case.extra.get("literal_state").as_str().to_string();
        match re {
            Reif::Implied(_) => out.cover(format!("implied_by/{}/{}", c.kind(), st)),
            Reif::Reified(_) => out.cover(format!("reify/{}/{}", c.kind(), st)),
            Reif::Negated => out.cover(format!("negation/{}", c.kind())),
            Reif::Plain => {}
        }
    }
    nontrivial(&mut out, &ev, expected.len());
    out
}

// ---------------------------------------------------------------------------------------------
// C17: explanations

pub fn run_c17(case: &Case) -> Outcome {
    let m = &case.model;
    let mut out = Outcome::new(m);
    let mut r = SmallRng::seed_from_u64(case.sub);
    let cfg = Config::random_progressing(&mut r);
    cfg.label(&mut out);
    let sols = m.enumerate();
    if sols.len() > 1500 {
        out.skip = Some("more than 1500 solutions".into());
        return out;
    }
    let mut tables = events::Tables::new(m, 20_000);
    // (a) one satisfy call: every event (tagged and untagged) is judged
    pumpkin_solver::verif::enable();
    let mut map = Default::default();
    let res = guard(|| {
        let mut o = Outcome::default();
        let mut b = build(m, cfg.opts.to_options(), m.cons.len(), true, false);
        map = dom_map(&b.xs);
        if b.post_err.is_some() {
            return o;
        }
        let mut brancher = make_brancher(&cfg.br, &b.solver, &b.xs);
        let mut t = Budget::for_model(m);
        if let SatisfactionResult::Unknown = b.solver.satisfy(&mut brancher, &mut t) {
            o.notes.push("budget exhausted in satisfy".into());
        }
        o
    });
    let ev = pumpkin_solver::verif::drain();
    pumpkin_solver::verif::disable();
    if let Err(p) = &res {
        out.notes.push(format!("panic during the monitored run (judged by other properties): {p}"));
        out.count("runs_with_panic", 1);
    }
    events::check_reasons(&mut out, &mut tables, &ev, &map, &events::ReasonCheckCfg { sols: Some(&sols), max_events: 2000 });
    let s1 = events::stats(&ev);
    // (b) full iteration on a fresh solver: only tagged events are judged (blocking clauses change
    // what untagged nogood-propagator events may rely on)
    if !out.failed() && sols.len() <= 300 {
        pumpkin_solver::verif::enable();
        let res = guard(|| {
            let mut o = Outcome::default();
            let _ = iterate_all(&mut o, m, &cfg, true, "iteration");
            o
        });
        let ev2 = pumpkin_solver::verif::drain();
        pumpkin_solver::verif::disable();
        if let Err(p) = &res {
            out.notes.push(format!("panic during the monitored run (judged by other properties): {p}"));
            out.count("runs_with_panic", 1);
        }
        events::check_reasons(&mut out, &mut tables, &ev2, &map, &events::ReasonCheckCfg { sols: None, max_events: 3000 });
        events::add_stats(&mut out, &ev2);
    }
    events::add_stats(&mut out, &ev);
    out.nontrivial = out.counters.get("reasons_checked").copied().unwrap_or(0) >= 1 && (s1.conflicts >= 1 || s1.nonroot_propagations >= 1);
    out
}

// ---------------------------------------------------------------------------------------------
// C18: branchers

pub fn run_c18(case: &Case) -> Outcome {
    let m = &case.model;
    let mut out = Outcome::new(m);
    let mut r = SmallRng::seed_from_u64(case.sub);
    let vi = case.extra.get("vi").as_i64() as usize;
    let wi = case.extra.get("wi").as_i64() as usize;
    let cfg = cfg_c18(case, &mut r);
    cfg.label(&mut out);
    let expected = m.enumerate();
    if expected.len() > 600 {
        out.skip = Some("more than 600 solutions".into());
        return out;
    }
    pumpkin_solver::verif::enable();
    let mut map = Default::default();
    let res = guard(|| {
        let mut o = Outcome::default();
        let mut b = build(m, cfg.opts.to_options(), m.cons.len(), false, false);
        map = dom_map(&b.xs);
        if check_post_err(&mut o, m, &b) {
            return o;
        }
        let mut brancher = make_brancher(&cfg.br, &b.solver, &b.xs);
        let mut t = Budget::for_iteration(m, &cfg.opts);
        let mut seen = BTreeSet::new();
        let mut it = b.solver.get_solution_iterator(&mut brancher, &mut t);
        loop {
            match it.next_solution() {
                IteratedSolution::Solution(sol, _, _) => match read_solution(&sol, &b.xs) {
                    Ok(a) => {
                        let _ = seen.insert(a);
                    }
                    Err(e) => {
                        o.fail("partial-solution", format!("a reported solution leaves a variable unfixed: {e}"));
                        return o;
                    }
                },
                IteratedSolution::Finished | IteratedSolution::Unsatisfiable => break,
                IteratedSolution::Unknown => {
                    o.fail("budget-exhausted", "search driven by this brancher did not terminate within the poll budget");
                    return o;
                }
            }
        }
        o.count("solutions", seen.len() as u64);
        o
    });
    let ev = pumpkin_solver::verif::drain();
    pumpkin_solver::verif::disable();
    // the decision monitor comes first: it names the root cause
    events::check_decisions(&mut out, &ev, &map);
    merge(&mut out, res);
    if !out.failed() {
        out.cover(format!("pair:{}/{}", VAR_SELECTORS[vi], VAL_SELECTORS[wi]));
        out.cover(format!("shape:{}", cfg.br.desc().split('(').next().unwrap()));
    }
    let st = events::stats(&ev);
    events::add_stats(&mut out, &ev);
    out.nontrivial = st.decisions >= 2;
    out
}

pub fn cfg_c09(r: &mut SmallRng) -> Config {
    let seed = r.gen();
    Config {
        opts: if r.gen_bool(0.5) { OptSpec::default_with_seed(seed) } else { OptSpec::random(r, seed) },
        br: if r.gen_bool(0.7) { BrSpec::Ivv(10, r.gen_range(0..14), r.gen()) } else { BrSpec::Default },
    }
}

pub fn cfg_c18(case: &Case, r: &mut SmallRng) -> Config {
    let vi = case.extra.get("vi").as_i64() as usize;
    let wi = case.extra.get("wi").as_i64() as usize;
    let shape = case.extra.get("shape").as_i64();
    let sd: u64 = r.gen();
    let br = match shape {
        0 => BrSpec::Ivv(vi, wi, sd),
        1 => BrSpec::Dynamic(vi, wi, sd),
        2 => BrSpec::Alternating(r.gen_range(0..4), vi, wi, sd),
        3 => BrSpec::Autonomous(vi, wi, sd),
        _ => BrSpec::Default,
    };
    let seed = r.gen();
    // restarts and backjumps: random options half of the time
    Config { opts: if r.gen_bool(0.5) { OptSpec::default_with_seed(seed) } else { OptSpec::random(r, seed) }, br }
}

pub fn cfgs_c07(r: &mut SmallRng, k: usize) -> Vec<Config> {
    let mut cfgs = vec![Config::default(r.gen())];
    while cfgs.len() < k {
        let seed = r.gen();
        cfgs.push(Config { opts: OptSpec::random(r, seed), br: BrSpec::random(r) });
    }
    cfgs
}
