//! Reference model: AST, exact (i128) semantics written from the documentation, brute-force
//! enumerator, tuple tables. Shares no code with Pumpkin.
use std::collections::BTreeSet;

use crate::json::Json;

pub type Lit = (usize, bool);

#[derive(Clone, Debug, PartialEq, Eq, Hash)]
pub struct View {
    pub var: usize,
    pub s: i64,
    pub o: i64,
}

impl View {
    pub fn plain(var: usize) -> View {
        View { var, s: 1, o: 0 }
    }
    pub fn val(&self, a: &[i64]) -> i128 {
        self.s as i128 * a[self.var] as i128 + self.o as i128
    }
    pub fn is_plain(&self) -> bool {
        self.s == 1 && self.o == 0
    }
}

#[derive(Clone, Copy, Debug, PartialEq, Eq, Hash)]
pub enum VarKind {
    Interval,
    Sparse,
    Bool,
}

#[derive(Clone, Debug, PartialEq, Eq, Hash)]
pub struct Var {
    /// sorted, distinct, non-empty
    pub dom: Vec<i64>,
    pub kind: VarKind,
}

impl Var {
    pub fn lo(&self) -> i64 {
        self.dom[0]
    }
    pub fn hi(&self) -> i64 {
        *self.dom.last().unwrap()
    }
}

#[derive(Clone, Debug, PartialEq, Eq, Hash)]
pub enum Con {
    LinLe(Vec<View>, i64),
    LinEq(Vec<View>, i64),
    LinNe(Vec<View>, i64),
    BinEq(View, View),
    BinNe(View, View),
    BinLe(View, View),
    BinLt(View, View),
    Plus(View, View, View),
    Times(View, View, View),
    Div(View, View, View),
    Abs(View, View),
    Max(Vec<View>, View),
    Min(Vec<View>, View),
    Elem(View, Vec<View>, View),
    AllDiff(Vec<View>),
    /// starts, durations, requirements, capacity, option index (0..144) or 144 = `cumulative()`
    Cumul(Vec<View>, Vec<i64>, Vec<i64>, i64, usize),
    Clause(Vec<Lit>),
    Conj(Vec<Lit>),
    /// sum w_i * b_i <= rhs
    BoolLe(Vec<i64>, Vec<Lit>, i64),
    /// sum w_i * b_i == x_rhs (rhs is a plain integer variable index)
    BoolEq(Vec<i64>, Vec<Lit>, usize),
    /// permanent clause over arbitrary atomic predicates (`Solver::add_clause`)
    PClause(Vec<MPred>),
    /// permanent clause over atomic predicates on views: `[s*x + o  op  v]` (`Solver::add_clause` with
    /// predicates built over `AffineView`s)
    VClause(Vec<(View, PK, i64)>),
    /// the 0-1 variable `b` was created with `new_literal_for_predicate(p)`: b <-> p. Not posted
    /// (the solver links them when the literal is created); part of the reference semantics.
    LitDef(usize, MPred),
}

#[derive(Clone, Debug, PartialEq, Eq, Hash)]
pub enum Reif {
    Plain,
    Implied(Lit),
    Reified(Lit),
    Negated,
}

#[derive(Clone, Debug, PartialEq, Eq, Hash, Default)]
pub struct Model {
    pub vars: Vec<Var>,
    pub cons: Vec<(Con, Reif)>,
}

pub fn lit_true(l: &Lit, a: &[i64]) -> bool {
    (a[l.0] == 1) == l.1
}

impl Con {
    pub fn kind(&self) -> &'static str {
        match self {
            Con::LinLe(..) => "lin_le",
            Con::LinEq(..) => "lin_eq",
            Con::LinNe(..) => "lin_ne",
            Con::BinEq(..) => "bin_eq",
            Con::BinNe(..) => "bin_ne",
            Con::BinLe(..) => "bin_le",
            Con::BinLt(..) => "bin_lt",
            Con::Plus(..) => "plus",
            Con::Times(..) => "times",
            Con::Div(..) => "div",
            Con::Abs(..) => "abs",
            Con::Max(..) => "max",
            Con::Min(..) => "min",
            Con::Elem(..) => "element",
            Con::AllDiff(..) => "all_different",
            Con::Cumul(..) => "cumulative",
            Con::Clause(..) => "clause",
            Con::Conj(..) => "conjunction",
            Con::BoolLe(..) => "bool_lin_le",
            Con::BoolEq(..) => "bool_lin_eq",
            Con::PClause(..) => "predicate_clause",
            Con::VClause(..) => "view_clause",
            Con::LitDef(..) => "literal_definition",
        }
    }
    pub fn negatable(&self) -> bool {
        matches!(
            self,
            Con::LinLe(..)
                | Con::LinEq(..)
                | Con::LinNe(..)
                | Con::BinEq(..)
                | Con::BinNe(..)
                | Con::BinLe(..)
                | Con::BinLt(..)
                | Con::Clause(..)
                | Con::Conj(..)
        )
    }
    /// clause / conjunction go through `add_clause` and cannot carry a tag
    pub fn taggable(&self) -> bool {
        !matches!(self, Con::Clause(..) | Con::Conj(..) | Con::PClause(..) | Con::VClause(..) | Con::LitDef(..))
    }
    pub fn views(&self) -> Vec<&View> {
        match self {
            Con::LinLe(t, _) | Con::LinEq(t, _) | Con::LinNe(t, _) | Con::AllDiff(t) => t.iter().collect(),
            Con::BinEq(a, b) | Con::BinNe(a, b) | Con::BinLe(a, b) | Con::BinLt(a, b) | Con::Abs(a, b) => vec![a, b],
            Con::Plus(a, b, c) | Con::Times(a, b, c) | Con::Div(a, b, c) => vec![a, b, c],
            Con::Max(t, r) | Con::Min(t, r) => t.iter().chain(std::iter::once(r)).collect(),
            Con::Elem(i, t, r) => std::iter::once(i).chain(t.iter()).chain(std::iter::once(r)).collect(),
            Con::Cumul(st, ..) => st.iter().collect(),
            Con::VClause(ps) => ps.iter().map(|p| &p.0).collect(),
            Con::Clause(_) | Con::Conj(_) | Con::BoolLe(..) | Con::BoolEq(..) | Con::PClause(_) | Con::LitDef(..) => vec![],
        }
    }
    pub fn scope(&self) -> BTreeSet<usize> {
        let mut s: BTreeSet<usize> = self.views().iter().map(|v| v.var).collect();
        match self {
            Con::Clause(l) | Con::Conj(l) | Con::BoolLe(_, l, _) => s.extend(l.iter().map(|l| l.0)),
            Con::BoolEq(_, l, r) => {
                s.extend(l.iter().map(|l| l.0));
                let _ = s.insert(*r);
            }
            Con::PClause(ps) => s.extend(ps.iter().map(|p| p.var)),
            Con::LitDef(b, p) => {
                let _ = s.insert(*b);
                let _ = s.insert(p.var);
            }
            _ => {}
        }
        s
    }
    /// Documented meaning, evaluated exactly.
    pub fn holds(&self, a: &[i64]) -> bool {
        let sum = |t: &[View]| t.iter().map(|v| v.val(a)).sum::<i128>();
        match self {
            Con::LinLe(t, r) => sum(t) <= *r as i128,
            Con::LinEq(t, r) => sum(t) == *r as i128,
            Con::LinNe(t, r) => sum(t) != *r as i128,
            Con::BinEq(x, y) => x.val(a) == y.val(a),
            Con::BinNe(x, y) => x.val(a) != y.val(a),
            Con::BinLe(x, y) => x.val(a) <= y.val(a),
            Con::BinLt(x, y) => x.val(a) < y.val(a),
            Con::Plus(x, y, z) => x.val(a) + y.val(a) == z.val(a),
            Con::Times(x, y, z) => x.val(a) * y.val(a) == z.val(a),
            Con::Div(x, y, z) => {
                let d = y.val(a);
                d != 0 && x.val(a) / d == z.val(a)
            }
            Con::Abs(x, y) => x.val(a).abs() == y.val(a),
            Con::Max(t, r) => t.iter().map(|v| v.val(a)).max().unwrap() == r.val(a),
            Con::Min(t, r) => t.iter().map(|v| v.val(a)).min().unwrap() == r.val(a),
            Con::Elem(i, arr, r) => {
                let idx = i.val(a);
                idx >= 0 && (idx as usize) < arr.len() && arr[idx as usize].val(a) == r.val(a)
            }
            Con::AllDiff(t) => {
                let vs: Vec<i128> = t.iter().map(|v| v.val(a)).collect();
                (0..vs.len()).all(|i| (i + 1..vs.len()).all(|j| vs[i] != vs[j]))
            }
            Con::Cumul(st, du, rq, cap, _) => {
                let s: Vec<i128> = st.iter().map(|v| v.val(a)).collect();
                // usage only changes at task starts, so checking the start points suffices
                (0..s.len()).filter(|&k| du[k] > 0).all(|k| {
                    let t = s[k];
                    (0..s.len())
                        .filter(|&i| s[i] <= t && t < s[i] + du[i] as i128)
                        .map(|i| rq[i] as i128)
                        .sum::<i128>()
                        <= *cap as i128
                })
            }
            Con::Clause(l) => l.iter().any(|l| lit_true(l, a)),
            Con::Conj(l) => l.iter().all(|l| lit_true(l, a)),
            Con::BoolLe(w, l, r) => {
                w.iter().zip(l).map(|(w, l)| if lit_true(l, a) { *w as i128 } else { 0 }).sum::<i128>() <= *r as i128
            }
            Con::BoolEq(w, l, r) => {
                w.iter().zip(l).map(|(w, l)| if lit_true(l, a) { *w as i128 } else { 0 }).sum::<i128>() == a[*r] as i128
            }
            Con::PClause(ps) => ps.iter().any(|p| p.holds(a)),
            Con::VClause(ps) => ps.iter().any(|(v, k, c)| {
                let x = v.val(a);
                let c = *c as i128;
                match k {
                    PK::Ge => x >= c,
                    PK::Le => x <= c,
                    PK::Eq => x == c,
                    PK::Ne => x != c,
                }
            }),
            Con::LitDef(b, p) => (a[*b] == 1) == p.holds(a),
        }
    }
}

pub fn holds_r(c: &(Con, Reif), a: &[i64]) -> bool {
    let h = c.0.holds(a);
    match &c.1 {
        Reif::Plain => h,
        Reif::Implied(l) => !lit_true(l, a) || h,
        Reif::Reified(l) => lit_true(l, a) == h,
        Reif::Negated => !h,
    }
}

pub fn scope_r(c: &(Con, Reif)) -> Vec<usize> {
    let mut s = c.0.scope();
    match &c.1 {
        Reif::Implied(l) | Reif::Reified(l) => {
            let _ = s.insert(l.0);
        }
        _ => {}
    }
    s.into_iter().collect()
}

impl Model {
    pub fn space(&self) -> f64 {
        self.vars.iter().map(|v| v.dom.len() as f64).product()
    }
    pub fn satisfies(&self, a: &[i64]) -> bool {
        a.len() == self.vars.len()
            && self.vars.iter().zip(a).all(|(v, x)| v.dom.binary_search(x).is_ok())
            && self.cons.iter().all(|c| holds_r(c, a))
    }
    /// First violated item, for diagnostics.
    pub fn why_not(&self, a: &[i64]) -> String {
        if a.len() != self.vars.len() {
            return "wrong length".into();
        }
        for (i, (v, x)) in self.vars.iter().zip(a).enumerate() {
            if v.dom.binary_search(x).is_err() {
                return format!("x{i}={x} outside declared domain");
            }
        }
        for (i, c) in self.cons.iter().enumerate() {
            if !holds_r(c, a) {
                return format!("constraint #{i} ({}) violated", c.0.kind());
            }
        }
        "satisfied".into()
    }
    /// Complete solution set over all variables (DFS in variable order; constraints are checked as
    /// soon as their scope is assigned).
    pub fn enumerate(&self) -> BTreeSet<Vec<i64>> {
        self.enumerate_prefix(self.cons.len())
    }
    pub fn enumerate_prefix(&self, ncons: usize) -> BTreeSet<Vec<i64>> {
        let n = self.vars.len();
        let mut out = BTreeSet::new();
        if n == 0 {
            if self.cons[..ncons].iter().all(|c| holds_r(c, &[])) {
                let _ = out.insert(vec![]);
            }
            return out;
        }
        // constraints by the depth at which they become checkable
        let mut at: Vec<Vec<usize>> = vec![vec![]; n];
        for (ci, c) in self.cons[..ncons].iter().enumerate() {
            let d = scope_r(c).into_iter().max().unwrap_or(0);
            at[d].push(ci);
        }
        let mut a = vec![0i64; n];
        let mut idx = vec![0usize; n];
        let mut d = 0usize;
        loop {
            if idx[d] >= self.vars[d].dom.len() {
                idx[d] = 0;
                if d == 0 {
                    break;
                }
                d -= 1;
                idx[d] += 1;
                continue;
            }
            a[d] = self.vars[d].dom[idx[d]];
            if at[d].iter().all(|&ci| holds_r(&self.cons[ci], &a)) {
                if d + 1 == n {
                    let _ = out.insert(a.clone());
                    idx[d] += 1;
                } else {
                    d += 1;
                }
            } else {
                idx[d] += 1;
            }
        }
        out
    }
    /// All assignments over the declared domains (no constraints).
    pub fn all_assignments(&self) -> Vec<Vec<i64>> {
        Model { vars: self.vars.clone(), cons: vec![] }.enumerate().into_iter().collect()
    }
    /// Satisfying tuples of one constraint over its scope: (scope, tuples of full-length vectors with
    /// non-scope entries left at the domain minimum). None if the scope product exceeds `cap`.
    pub fn tuple_table(&self, ci: usize, cap: usize) -> Option<(Vec<usize>, Vec<Vec<i64>>)> {
        let sc = scope_r(&self.cons[ci]);
        let prod: f64 = sc.iter().map(|&v| self.vars[v].dom.len() as f64).product();
        if prod > cap as f64 {
            return None;
        }
        let mut a: Vec<i64> = self.vars.iter().map(|v| v.lo()).collect();
        let mut out = vec![];
        let mut idx = vec![0usize; sc.len()];
        loop {
            for (k, &v) in sc.iter().enumerate() {
                a[v] = self.vars[v].dom[idx[k]];
            }
            if holds_r(&self.cons[ci], &a) {
                out.push(a.clone());
            }
            let mut k = 0;
            loop {
                if k == sc.len() {
                    return Some((sc, out));
                }
                idx[k] += 1;
                if idx[k] < self.vars[sc[k]].dom.len() {
                    break;
                }
                idx[k] = 0;
                k += 1;
            }
        }
    }
    pub fn fingerprint(&self) -> u64 {
        use std::hash::Hash;
        use std::hash::Hasher;
        let mut h = Fnv(0xcbf29ce484222325);
        self.hash(&mut h);
        h.finish()
    }
}

pub struct Fnv(pub u64);
impl std::hash::Hasher for Fnv {
    fn finish(&self) -> u64 {
        self.0
    }
    fn write(&mut self, bytes: &[u8]) {
        for b in bytes {
            self.0 ^= *b as u64;
            self.0 = self.0.wrapping_mul(0x100000001b3);
        }
    }
}

// ---------------------------------------------------------------------------------------------
// atomic predicates over model variables (harness-side mirror of Pumpkin's Predicate)

#[derive(Clone, Copy, Debug, PartialEq, Eq, Hash, PartialOrd, Ord)]
pub enum PK {
    Ge,
    Le,
    Eq,
    Ne,
}

#[derive(Clone, Copy, Debug, PartialEq, Eq, Hash, PartialOrd, Ord)]
pub struct MPred {
    pub var: usize,
    pub k: PK,
    pub v: i64,
}

impl MPred {
    pub fn holds(&self, a: &[i64]) -> bool {
        self.holds_val(a[self.var])
    }
    pub fn holds_val(&self, x: i64) -> bool {
        match self.k {
            PK::Ge => x >= self.v,
            PK::Le => x <= self.v,
            PK::Eq => x == self.v,
            PK::Ne => x != self.v,
        }
    }
    pub fn negate(&self) -> MPred {
        match self.k {
            PK::Ge => MPred { var: self.var, k: PK::Le, v: self.v - 1 },
            PK::Le => MPred { var: self.var, k: PK::Ge, v: self.v + 1 },
            PK::Eq => MPred { var: self.var, k: PK::Ne, v: self.v },
            PK::Ne => MPred { var: self.var, k: PK::Eq, v: self.v },
        }
    }
    pub fn show(&self) -> String {
        let op = match self.k {
            PK::Ge => ">=",
            PK::Le => "<=",
            PK::Eq => "==",
            PK::Ne => "!=",
        };
        format!("[x{} {} {}]", self.var, op, self.v)
    }
}

// ---------------------------------------------------------------------------------------------
// JSON (de)serialisation

fn view_j(v: &View) -> Json {
    Json::Arr(vec![Json::int(v.var as i64), Json::int(v.s), Json::int(v.o)])
}
fn views_j(v: &[View]) -> Json {
    Json::arr(v, view_j)
}
fn lits_j(l: &[Lit]) -> Json {
    Json::arr(l, |l| Json::Arr(vec![Json::int(l.0 as i64), Json::Bool(l.1)]))
}
fn mpred_j(p: &MPred) -> Json {
    Json::Arr(vec![
        Json::int(p.var as i64),
        Json::str(match p.k {
            PK::Ge => ">=",
            PK::Le => "<=",
            PK::Eq => "==",
            PK::Ne => "!=",
        }),
        Json::int(p.v),
    ])
}
fn j_mpred(j: &Json) -> MPred {
    let a = j.as_arr();
    MPred {
        var: a[0].as_usize(),
        k: match a[1].as_str() {
            ">=" => PK::Ge,
            "<=" => PK::Le,
            "==" => PK::Eq,
            _ => PK::Ne,
        },
        v: a[2].as_i64(),
    }
}
fn j_view(j: &Json) -> View {
    let a = j.as_arr();
    View { var: a[0].as_usize(), s: a[1].as_i64(), o: a[2].as_i64() }
}
fn j_views(j: &Json) -> Vec<View> {
    j.as_arr().iter().map(j_view).collect()
}
fn j_lit(j: &Json) -> Lit {
    let a = j.as_arr();
    (a[0].as_usize(), a[1].as_bool())
}
fn j_lits(j: &Json) -> Vec<Lit> {
    j.as_arr().iter().map(j_lit).collect()
}
fn j_ints(j: &Json) -> Vec<i64> {
    j.as_arr().iter().map(|x| x.as_i64()).collect()
}

impl Con {
    pub fn to_json(&self) -> Json {
        let k = Json::str(self.kind());
        let a = match self {
            Con::LinLe(t, r) | Con::LinEq(t, r) | Con::LinNe(t, r) => vec![k, views_j(t), Json::int(*r)],
            Con::BinEq(x, y) | Con::BinNe(x, y) | Con::BinLe(x, y) | Con::BinLt(x, y) | Con::Abs(x, y) => {
                vec![k, view_j(x), view_j(y)]
            }
            Con::Plus(x, y, z) | Con::Times(x, y, z) | Con::Div(x, y, z) => vec![k, view_j(x), view_j(y), view_j(z)],
            Con::Max(t, r) | Con::Min(t, r) => vec![k, views_j(t), view_j(r)],
            Con::Elem(i, t, r) => vec![k, view_j(i), views_j(t), view_j(r)],
            Con::AllDiff(t) => vec![k, views_j(t)],
            Con::Cumul(st, du, rq, cap, o) => {
                vec![k, views_j(st), Json::ints(du), Json::ints(rq), Json::int(*cap), Json::int(*o as i64)]
            }
            Con::Clause(l) | Con::Conj(l) => vec![k, lits_j(l)],
            Con::BoolLe(w, l, r) => vec![k, Json::ints(w), lits_j(l), Json::int(*r)],
            Con::BoolEq(w, l, r) => vec![k, Json::ints(w), lits_j(l), Json::int(*r as i64)],
            Con::PClause(ps) => vec![k, Json::arr(ps, mpred_j)],
            Con::VClause(ps) => vec![
                k,
                Json::arr(ps, |(v, pk, c)| {
                    Json::Arr(vec![view_j(v), Json::str(match pk {
                        PK::Ge => ">=",
                        PK::Le => "<=",
                        PK::Eq => "==",
                        PK::Ne => "!=",
                    }), Json::int(*c)])
                }),
            ],
            Con::LitDef(b, p) => vec![k, Json::int(*b as i64), mpred_j(p)],
        };
        Json::Arr(a)
    }
    pub fn from_json(j: &Json) -> Con {
        let a = j.as_arr();
        match a[0].as_str() {
            "lin_le" => Con::LinLe(j_views(&a[1]), a[2].as_i64()),
            "lin_eq" => Con::LinEq(j_views(&a[1]), a[2].as_i64()),
            "lin_ne" => Con::LinNe(j_views(&a[1]), a[2].as_i64()),
            "bin_eq" => Con::BinEq(j_view(&a[1]), j_view(&a[2])),
            "bin_ne" => Con::BinNe(j_view(&a[1]), j_view(&a[2])),
            "bin_le" => Con::BinLe(j_view(&a[1]), j_view(&a[2])),
            "bin_lt" => Con::BinLt(j_view(&a[1]), j_view(&a[2])),
            "abs" => Con::Abs(j_view(&a[1]), j_view(&a[2])),
            "plus" => Con::Plus(j_view(&a[1]), j_view(&a[2]), j_view(&a[3])),
            "times" => Con::Times(j_view(&a[1]), j_view(&a[2]), j_view(&a[3])),
            "div" => Con::Div(j_view(&a[1]), j_view(&a[2]), j_view(&a[3])),
            "max" => Con::Max(j_views(&a[1]), j_view(&a[2])),
            "min" => Con::Min(j_views(&a[1]), j_view(&a[2])),
            "element" => Con::Elem(j_view(&a[1]), j_views(&a[2]), j_view(&a[3])),
            "all_different" => Con::AllDiff(j_views(&a[1])),
            "cumulative" => Con::Cumul(j_views(&a[1]), j_ints(&a[2]), j_ints(&a[3]), a[4].as_i64(), a[5].as_usize()),
            "clause" => Con::Clause(j_lits(&a[1])),
            "conjunction" => Con::Conj(j_lits(&a[1])),
            "bool_lin_le" => Con::BoolLe(j_ints(&a[1]), j_lits(&a[2]), a[3].as_i64()),
            "bool_lin_eq" => Con::BoolEq(j_ints(&a[1]), j_lits(&a[2]), a[3].as_usize()),
            "predicate_clause" => Con::PClause(a[1].as_arr().iter().map(j_mpred).collect()),
            "view_clause" => Con::VClause(
                a[1].as_arr()
                    .iter()
                    .map(|p| {
                        let p = p.as_arr();
                        let k = match p[1].as_str() {
                            ">=" => PK::Ge,
                            "<=" => PK::Le,
                            "==" => PK::Eq,
                            "!=" => PK::Ne,
                            o => panic!("bad operator {o}"),
                        };
                        (j_view(&p[0]), k, p[2].as_i64())
                    })
                    .collect(),
            ),
            "literal_definition" => Con::LitDef(a[1].as_usize(), j_mpred(&a[2])),
            k => panic!("unknown constraint kind {k}"),
        }
    }
}

impl Reif {
    pub fn to_json(&self) -> Json {
        match self {
            Reif::Plain => Json::str("plain"),
            Reif::Negated => Json::str("negated"),
            Reif::Implied(l) => Json::Arr(vec![Json::str("implied_by"), Json::int(l.0 as i64), Json::Bool(l.1)]),
            Reif::Reified(l) => Json::Arr(vec![Json::str("reify"), Json::int(l.0 as i64), Json::Bool(l.1)]),
        }
    }
    pub fn from_json(j: &Json) -> Reif {
        match j {
            Json::Str(s) if s == "plain" => Reif::Plain,
            Json::Str(s) if s == "negated" => Reif::Negated,
            Json::Arr(a) if a[0].as_str() == "implied_by" => Reif::Implied((a[1].as_usize(), a[2].as_bool())),
            Json::Arr(a) if a[0].as_str() == "reify" => Reif::Reified((a[1].as_usize(), a[2].as_bool())),
            _ => panic!("bad reif {j:?}"),
        }
    }
}

impl Model {
    pub fn to_json(&self) -> Json {
        Json::obj([
            (
                "vars",
                Json::arr(&self.vars, |v| {
                    Json::obj([
                        (
                            "kind",
                            Json::str(match v.kind {
                                VarKind::Interval => "interval",
                                VarKind::Sparse => "sparse",
                                VarKind::Bool => "bool",
                            }),
                        ),
                        (
                            "dom",
                            if v.kind == VarKind::Interval {
                                Json::Arr(vec![Json::int(v.lo()), Json::int(v.hi())])
                            } else {
                                Json::ints(&v.dom)
                            },
                        ),
                    ])
                }),
            ),
            ("cons", Json::arr(&self.cons, |c| Json::Arr(vec![c.0.to_json(), c.1.to_json()]))),
        ])
    }
    pub fn from_json(j: &Json) -> Model {
        let vars = j
            .get("vars")
            .as_arr()
            .iter()
            .map(|v| {
                let d = j_ints(v.get("dom"));
                match v.get("kind").as_str() {
                    "interval" => Var { dom: (d[0]..=d[1]).collect(), kind: VarKind::Interval },
                    "sparse" => Var { dom: d, kind: VarKind::Sparse },
                    _ => Var { dom: vec![0, 1], kind: VarKind::Bool },
                }
            })
            .collect();
        let cons = j
            .get("cons")
            .as_arr()
            .iter()
            .map(|c| {
                let a = c.as_arr();
                (Con::from_json(&a[0]), Reif::from_json(&a[1]))
            })
            .collect();
        Model { vars, cons }
    }
}
