//! C10 (API histories), C11 (interruption at every poll index), C16 (large magnitudes).
use std::cell::RefCell;
use std::collections::BTreeSet;

use pumpkin_solver::optimisation::linear_sat_unsat::LinearSatUnsat;
use pumpkin_solver::optimisation::linear_unsat_sat::LinearUnsatSat;
use pumpkin_solver::optimisation::OptimisationDirection;
use pumpkin_solver::results::solution_iterator::IteratedSolution;
use pumpkin_solver::results::OptimisationResult;
use pumpkin_solver::results::SatisfactionResult;
use pumpkin_solver::results::SatisfactionResultUnderAssumptions as SRA;
use pumpkin_solver::results::SolutionReference;
use pumpkin_solver::termination::TerminationCondition;
use pumpkin_solver::Solver;
use rand::rngs::SmallRng;
use rand::Rng;
use rand::SeedableRng;

use crate::core::*;
use crate::drive::*;
use crate::events;
use crate::gen;
use crate::json::Json;
use crate::model::*;
use crate::props_a::*;

// ---------------------------------------------------------------------------------------------
// C10

/// Shadow of what the solver has been told so far.
struct Shadow {
    model: Model,
    /// assignments (over a prefix of the variables) blocked by solution iteration
    blocked: Vec<Vec<i64>>,
    /// objective cuts the solver may or may not have kept: (objective view, maximise, best value
    /// reported); the cut is "objective strictly better than best"
    cuts: Vec<(View, bool, i128)>,
}

impl Shadow {
    fn upper(&self) -> BTreeSet<Vec<i64>> {
        self.model.enumerate().into_iter().filter(|a| !self.blocked.iter().any(|b| a[..b.len()] == b[..])).collect()
    }
    fn lower_of(&self, upper: &BTreeSet<Vec<i64>>) -> BTreeSet<Vec<i64>> {
        upper
            .iter()
            .filter(|a| self.cuts.iter().all(|(v, max, best)| if *max { v.val(a) > *best } else { v.val(a) < *best }))
            .cloned()
            .collect()
    }
}

thread_local! {
    /// events taken out of the hook sink by `AfterLearned` while a history runs (handed back at the end)
    static STASH: std::cell::RefCell<Vec<pumpkin_solver::verif::Event>> = const { std::cell::RefCell::new(Vec::new()) };
    static FIRED_AFTER_LEARNED: std::cell::Cell<u64> = const { std::cell::Cell::new(0) };
}

/// Fires once, at the first poll after the `j`-th nogood learned since the condition was created – the
/// moment at which the asserting (possibly unit, root-level) nogood has been posted but nothing has been
/// propagated yet.
struct AfterLearned {
    j: usize,
    seen: usize,
    fired: bool,
    polls: u64,
}
impl AfterLearned {
    fn should_stop(&mut self) -> bool {
        self.polls += 1;
        let evs = pumpkin_solver::verif::drain();
        self.seen += evs.iter().filter(|e| matches!(e, pumpkin_solver::verif::Event::Learned { .. })).count();
        STASH.with(|s| s.borrow_mut().extend(evs));
        if !self.fired && self.seen >= self.j {
            self.fired = true;
            FIRED_AFTER_LEARNED.with(|c| c.set(c.get() + 1));
            return true;
        }
        self.polls > 5_000_000
    }
}

enum Term {
    Never(Budget),
    At(StopAt),
    AfterLearned(AfterLearned),
}
impl TerminationCondition for Term {
    fn should_stop(&mut self) -> bool {
        match self {
            Term::Never(b) => b.should_stop(),
            Term::At(s) => s.should_stop(),
            Term::AfterLearned(a) => a.should_stop(),
        }
    }
}
impl Term {
    fn fired_deliberately(&self) -> bool {
        matches!(self, Term::At(s) if s.fired) || matches!(self, Term::AfterLearned(a) if a.fired)
    }
}

pub fn run_c10(case: &Case) -> Outcome {
    // the case's model is the pool: variables are introduced in batches, constraints in order
    let pool = &case.model;
    let mut out = Outcome::new(pool);
    let mut r = SmallRng::seed_from_u64(case.sub);
    let cfg = Config::random_for_assumptions(&mut r);
    cfg.label(&mut out);
    let nsteps = r.gen_range(4..=14);
    let sub2: u64 = r.gen();
    let mut trace: Vec<String> = vec![];
    pumpkin_solver::verif::enable();
    let res = guard(|| {
        let mut out = Outcome::default();
        let mut r = SmallRng::seed_from_u64(sub2);
        let mut solver = Solver::with_options(cfg.opts.to_options());
        // start with a prefix of the variables; constraint k can be posted once all its variables exist
        let mut nvars = r.gen_range(1..=pool.vars.len());
        let mut sh = Shadow { model: Model { vars: pool.vars[..nvars].to_vec(), cons: vec![] }, blocked: vec![], cuts: vec![] };
        let mut xs = new_vars(&mut solver, &sh.model, 0, false);
        let mut next_con = 0usize;
        let mut dead = false;
        let mut brancher = make_brancher(&cfg.br, &solver, &xs);
        let mut brancher_nvars = nvars;
        // A brancher is responsible for the variables that existed when it was created (reusing the
        // default brancher across the creation of variables leaves the new variables unfixed, which is
        // a misuse and not a defect), so branchers are recreated after variables were added.
        let reuse_default_brancher = false;
        let mut after_interrupt = false;
        for _ in 0..nsteps {
            // right after an interrupted solve, variable creation is tried more often (the solver is left
            // in whatever state the interruption found it in)
            let op = if after_interrupt && r.gen_bool(0.4) { 0 } else { r.gen_range(0..9) };
            after_interrupt = false;
            // a third of the solves is interrupted: a quarter of those at poll 0-5, a quarter at a poll drawn
            // log-uniformly up to ~360 (so that interruptions also land after conflicts), half at the first
            // poll after the j-th nogood learned by that solve (j = 1..3; never, if it learns fewer)
            let fire_at: Option<(u8, u64)> = if r.gen_range(0..3) == 0 {
                Some(match r.gen_range(0..4) {
                    0 => (0, r.gen_range(0..6)),
                    1 => (0, 2f64.powf(r.gen_range(0.0..8.5)) as u64),
                    _ => (1, r.gen_range(1..=3)),
                })
            } else {
                None
            };
            let mk_term = |m: &Model| match fire_at {
                None => Term::Never(Budget::for_model(m)),
                Some((0, k)) => Term::At(StopAt::new(Some(k), 5_000_000)),
                Some((_, j)) => Term::AfterLearned(AfterLearned { j: j as usize, seen: 0, fired: false, polls: 0 }),
            };
            match op {
                0 if nvars < pool.vars.len() && !dead && sh.cuts.is_empty() => {
                    // (after an optimisation the solver may be infeasible because of its own objective
                    // cut; creating variables in an infeasible solver is a documented assertion)
                    let add = r.gen_range(1..=pool.vars.len() - nvars);
                    sh.model.vars.extend(pool.vars[nvars..nvars + add].iter().cloned());
                    xs.extend(new_vars(&mut solver, &sh.model, nvars, false));
                    nvars += add;
                    trace.push(format!("new_vars(+{add})"));
                    out.cover("op:new-variable");
                }
                0 | 1 | 2 => {
                    // post the next constraint whose variables exist
                    let Some(ci) = (next_con..pool.cons.len()).find(|&ci| scope_r(&pool.cons[ci]).iter().all(|v| *v < nvars)) else { continue };
                    let c = pool.cons[ci].clone();
                    // constraints are consumed in order; skipped ones are dropped
                    next_con = ci + 1;
                    let r0 = post_con(&mut solver, &xs, &c, None);
                    sh.model.cons.push(c.clone());
                    trace.push(format!("post({})={}", c.0.kind(), if r0.is_ok() { "ok" } else { "err" }));
                    out.cover("op:post");
                    if r0.is_err() {
                        let up = sh.upper();
                        if !sh.lower_of(&up).is_empty() {
                            out.fail("post-infeasible-but-satisfiable", format!("history [{}]: posting returned an error but the accumulated model still has solutions", trace.join(", ")));
                            return out;
                        }
                        dead = true;
                    }
                }
                3 | 4 => {
                    if brancher_nvars != nvars && !(reuse_default_brancher && matches!(cfg.br, BrSpec::Default)) {
                        brancher = make_brancher(&cfg.br, &solver, &xs);
                        brancher_nvars = nvars;
                    }
                    let up = sh.upper();
                    let lo = sh.lower_of(&up);
                    let mut t = mk_term(&sh.model);
                    let res = solver.satisfy(&mut brancher, &mut t);
                    out.cover("op:satisfy");
                    match res {
                        SatisfactionResult::Satisfiable(sol) => {
                            trace.push("satisfy=sat".into());
                            match read_solution(&sol, &xs) {
                                Ok(a) => {
                                    if !up.contains(&a) {
                                        out.fail("stale-or-wrong-solution", format!("history [{}]: {a:?} is not a solution of the accumulated model ({})", trace.join(", "), sh.model.why_not(&a)));
                                        return out;
                                    }
                                }
                                Err(e) => {
                                    out.fail("partial-solution", format!("history [{}]: {e}", trace.join(", ")));
                                    return out;
                                }
                            }
                        }
                        SatisfactionResult::Unsatisfiable => {
                            trace.push("satisfy=unsat".into());
                            if !lo.is_empty() {
                                out.fail("unsat-but-satisfiable", format!("history [{}]: Unsatisfiable but the accumulated model has {} solutions", trace.join(", "), lo.len()));
                                return out;
                            }
                            dead = true;
                        }
                        SatisfactionResult::Unknown => {
                            trace.push("satisfy=unknown".into());
                            if !t.fired_deliberately() {
                                out.fail("budget-exhausted", format!("history [{}]: no answer within the poll budget", trace.join(", ")));
                                return out;
                            }
                            out.cover("interrupted");
                            after_interrupt = true;
                        }
                    }
                }
                5 => {
                    if brancher_nvars != nvars && !(reuse_default_brancher && matches!(cfg.br, BrSpec::Default)) {
                        brancher = make_brancher(&cfg.br, &solver, &xs);
                        brancher_nvars = nvars;
                    }
                    let na = r.gen_range(1..4);
                    let ass: Vec<MPred> = (0..na)
                        .map(|_| {
                            let var = r.gen_range(0..nvars);
                            let d = &sh.model.vars[var];
                            MPred { var, k: [PK::Ge, PK::Le, PK::Eq, PK::Ne][r.gen_range(0..4)], v: r.gen_range(d.lo() - 1..=d.hi() + 1) }
                        })
                        .collect();
                    let want_core = r.gen_bool(0.5);
                    let preds: Vec<_> = ass.iter().map(|p| from_mpred(p, &xs)).collect();
                    let up = sh.upper();
                    let lo = sh.lower_of(&up);
                    let mut t = mk_term(&sh.model);
                    out.cover("op:satisfy-under-assumptions");
                    let desc = events::show_preds(&ass);
                    match solver.satisfy_under_assumptions(&mut brancher, &mut t, &preds) {
                        SRA::Satisfiable(sol) => {
                            trace.push(format!("assume({desc})=sat"));
                            match read_solution(&sol, &xs) {
                                Ok(a) => {
                                    if !up.contains(&a) || !ass.iter().all(|p| p.holds(&a)) {
                                        out.fail("stale-or-wrong-solution", format!("history [{}]: {a:?} is not a solution of the accumulated model under the assumptions", trace.join(", ")));
                                        return out;
                                    }
                                }
                                Err(e) => {
                                    out.fail("partial-solution", format!("history [{}]: {e}", trace.join(", ")));
                                    return out;
                                }
                            }
                        }
                        SRA::Unsatisfiable => {
                            trace.push(format!("assume({desc})=unsat"));
                            if !lo.is_empty() {
                                out.fail("unsat-but-satisfiable", format!("history [{}]: Unsatisfiable but the accumulated model has {} solutions", trace.join(", "), lo.len()));
                                return out;
                            }
                            dead = true;
                        }
                        SRA::UnsatisfiableUnderAssumptions(mut u) => {
                            trace.push(format!("assume({desc})=unsat-under-assumptions{}", if want_core { "+core" } else { "" }));
                            if lo.iter().any(|a| ass.iter().all(|p| p.holds(a))) {
                                out.fail("unsat-under-assumptions-but-satisfiable", format!("history [{}]", trace.join(", ")));
                                return out;
                            }
                            if want_core {
                                out.cover("op:extract-core");
                                if let Err(p) = guard(|| u.extract_core()) {
                                    if !p.contains("Conflicting assumptions") {
                                        out.fail("panic", format!("history [{}]: extract_core: {p}", trace.join(", ")));
                                        return out;
                                    }
                                }
                            }
                        }
                        SRA::Unknown => {
                            trace.push(format!("assume({desc})=unknown"));
                            if !t.fired_deliberately() {
                                out.fail("budget-exhausted", format!("history [{}]: no answer within the poll budget", trace.join(", ")));
                                return out;
                            }
                            out.cover("interrupted");
                            after_interrupt = true;
                        }
                    }
                }
                6 => {
                    if brancher_nvars != nvars && !(reuse_default_brancher && matches!(cfg.br, BrSpec::Default)) {
                        brancher = make_brancher(&cfg.br, &solver, &xs);
                        brancher_nvars = nvars;
                    }
                    let k = r.gen_range(1..5);
                    let mut t = mk_term(&sh.model);
                    out.cover("op:iterate");
                    let mut yielded: Vec<Vec<i64>> = vec![];
                    let mut status = "open";
                    {
                        let mut it = solver.get_solution_iterator(&mut brancher, &mut t);
                        for _ in 0..k {
                            // calling next_solution blocks the previously yielded solution
                            if let Some(prev) = yielded.last() {
                                sh.blocked.push(prev.clone());
                            }
                            let up = sh.upper();
                            let lo = sh.lower_of(&up);
                            match it.next_solution() {
                                IteratedSolution::Solution(sol, _, _) => match read_solution(&sol, &xs) {
                                    Ok(a) => {
                                        if !up.contains(&a) {
                                            out.fail("stale-or-wrong-solution", format!("history [{}, iterate]: yielded {a:?} which is blocked or not a solution ({})", trace.join(", "), sh.model.why_not(&a)));
                                            return out;
                                        }
                                        yielded.push(a);
                                    }
                                    Err(e) => {
                                        out.fail("partial-solution", format!("history [{}, iterate]: {e}", trace.join(", ")));
                                        return out;
                                    }
                                },
                                IteratedSolution::Finished | IteratedSolution::Unsatisfiable => {
                                    status = "finished";
                                    if !lo.is_empty() {
                                        out.fail("iteration-ended-early", format!("history [{}, iterate after {} solutions]: ended but {} solutions remain", trace.join(", "), yielded.len(), lo.len()));
                                        return out;
                                    }
                                    dead = true;
                                    break;
                                }
                                IteratedSolution::Unknown => {
                                    status = "unknown";
                                    break;
                                }
                            }
                        }
                    }
                    trace.push(format!("iterate({k})={}x{status}", yielded.len()));
                    if status == "unknown" {
                        if !t.fired_deliberately() {
                            out.fail("budget-exhausted", format!("history [{}]: no answer within the poll budget", trace.join(", ")));
                            return out;
                        }
                        out.cover("interrupted");
                            after_interrupt = true;
                    }
                }
                _ => {
                    if brancher_nvars != nvars && !(reuse_default_brancher && matches!(cfg.br, BrSpec::Default)) {
                        brancher = make_brancher(&cfg.br, &solver, &xs);
                        brancher_nvars = nvars;
                    }
                    let ints: Vec<usize> = (0..nvars).collect();
                    let var = ints[r.gen_range(0..ints.len())];
                    let obj = View { var, s: [1, 1, -1, 2, -2][r.gen_range(0..5)], o: r.gen_range(-1..2) };
                    let maximise = r.gen_bool(0.5);
                    let unsat_sat = r.gen_bool(0.5);
                    let up = sh.upper();
                    let lo = sh.lower_of(&up);
                    let best_of = |s: &BTreeSet<Vec<i64>>| if maximise { s.iter().map(|a| obj.val(a)).max() } else { s.iter().map(|a| obj.val(a)).min() };
                    let mut t = mk_term(&sh.model);
                    let dir = if maximise { OptimisationDirection::Maximise } else { OptimisationDirection::Minimise };
                    let o = mk_view(&obj, &xs);
                    let cbs: RefCell<Vec<Result<Vec<i64>, String>>> = RefCell::new(vec![]);
                    let xs2 = xs.clone();
                    let cb = |_: &Solver, s: SolutionReference, _: &BoxB| cbs.borrow_mut().push(read_solution_ref(s, &xs2));
                    out.cover(if unsat_sat { "op:optimise(unsat-sat)" } else { "op:optimise(sat-unsat)" });
                    let res = if unsat_sat {
                        solver.optimise(&mut brancher, &mut t, LinearUnsatSat::new(dir, o, cb))
                    } else {
                        solver.optimise(&mut brancher, &mut t, LinearSatUnsat::new(dir, o, cb))
                    };
                    let name = format!("optimise({}{}*x{}+{},{})", if maximise { "max " } else { "min " }, obj.s, obj.var, obj.o, if unsat_sat { "unsat-sat" } else { "sat-unsat" });
                    let mut best_seen: Option<i128> = None;
                    for a in cbs.borrow().iter() {
                        match a {
                            Ok(a) if up.contains(a) => {
                                let v = obj.val(a);
                                best_seen = Some(match best_seen {
                                    None => v,
                                    Some(b) => {
                                        if maximise {
                                            b.max(v)
                                        } else {
                                            b.min(v)
                                        }
                                    }
                                });
                            }
                            Ok(a) => {
                                out.fail("stale-or-wrong-solution", format!("history [{}, {name}]: callback solution {a:?} is not a solution of the accumulated model", trace.join(", ")));
                                return out;
                            }
                            Err(e) => {
                                out.fail("partial-solution", format!("history [{}, {name}]: {e}", trace.join(", ")));
                                return out;
                            }
                        }
                    }
                    match res {
                        OptimisationResult::Optimal(sol) => {
                            trace.push(format!("{name}=optimal"));
                            match read_solution(&sol, &xs) {
                                Ok(a) => {
                                    if !up.contains(&a) {
                                        out.fail("stale-or-wrong-solution", format!("history [{}]: Optimal solution {a:?} is not a solution of the accumulated model", trace.join(", ")));
                                        return out;
                                    }
                                    let v = obj.val(&a);
                                    // envelope: optimum over the upper end is a bound in one direction, over the lower end in the other
                                    let bu = best_of(&up).unwrap();
                                    let ok = match best_of(&lo) {
                                        Some(bl) => {
                                            if maximise {
                                                bl <= v && v <= bu
                                            } else {
                                                bu <= v && v <= bl
                                            }
                                        }
                                        None => true,
                                    };
                                    if !ok {
                                        out.fail("wrong-optimum", format!("history [{}]: Optimal with objective {v}; optimum of the accumulated model {bu}, with all earlier cuts {:?}", trace.join(", "), best_of(&lo)));
                                        return out;
                                    }
                                    sh.cuts.push((obj.clone(), maximise, v));
                                }
                                Err(e) => {
                                    out.fail("partial-solution", format!("history [{}]: {e}", trace.join(", ")));
                                    return out;
                                }
                            }
                        }
                        OptimisationResult::Satisfiable(sol) => {
                            trace.push(format!("{name}=satisfiable"));
                            if !t.fired_deliberately() {
                                out.fail("budget-exhausted", format!("history [{}]: no optimality verdict within the poll budget", trace.join(", ")));
                                return out;
                            }
                            out.cover("interrupted");
                            after_interrupt = true;
                            match read_solution(&sol, &xs) {
                                Ok(a) if up.contains(&a) => {
                                    let v = obj.val(&a);
                                    let b = best_seen.map_or(v, |b| if maximise { b.max(v) } else { b.min(v) });
                                    sh.cuts.push((obj.clone(), maximise, b));
                                }
                                Ok(a) => {
                                    out.fail("stale-or-wrong-solution", format!("history [{}]: best-so-far {a:?} is not a solution of the accumulated model", trace.join(", ")));
                                    return out;
                                }
                                Err(e) => {
                                    out.fail("partial-solution", format!("history [{}]: {e}", trace.join(", ")));
                                    return out;
                                }
                            }
                        }
                        OptimisationResult::Unsatisfiable => {
                            trace.push(format!("{name}=unsat"));
                            if !lo.is_empty() {
                                out.fail("unsat-but-satisfiable", format!("history [{}]: Unsatisfiable but the accumulated model has {} solutions", trace.join(", "), lo.len()));
                                return out;
                            }
                            dead = true;
                        }
                        OptimisationResult::Unknown => {
                            trace.push(format!("{name}=unknown"));
                            if !t.fired_deliberately() {
                                out.fail("budget-exhausted", format!("history [{}]: no answer within the poll budget", trace.join(", ")));
                                return out;
                            }
                            out.cover("interrupted");
                            after_interrupt = true;
                            if let Some(b) = best_seen {
                                sh.cuts.push((obj.clone(), maximise, b));
                            }
                        }
                    }
                }
            }
            out.count("operations", 1);
        }
        let _ = dead;
        out
    });
    let mut ev = STASH.with(|s| std::mem::take(&mut *s.borrow_mut()));
    ev.extend(pumpkin_solver::verif::drain());
    out.count("solves_interrupted_right_after_a_learned_nogood", FIRED_AFTER_LEARNED.with(|c| c.replace(0)));
    pumpkin_solver::verif::disable();
    if let Err(p) = &res {
        let p = p.clone();
        out.fail("panic", format!("history [{}]: {p}", trace.join(", ")));
    } else {
        merge(&mut out, res);
    }
    nontrivial(&mut out, &ev, 0);
    let solves = trace.iter().filter(|t| !t.starts_with("post") && !t.starts_with("new_vars")).count();
    out.nontrivial = solves >= 2;
    out.config = Json::obj([("solver", cfg.to_json()), ("history", Json::arr(&trace, |t| Json::str(t.clone())))]);
    if trace.iter().any(|t| t.starts_with("optimise")) {
        out.class("history.optimise");
    }
    if trace.iter().any(|t| t.starts_with("assume")) {
        out.class("history.assumptions");
    }
    if trace.iter().any(|t| t.ends_with("unknown") || t.ends_with("=satisfiable")) {
        out.class("history.interrupted");
    }
    out
}

// ---------------------------------------------------------------------------------------------
// C11

struct RunResult {
    polls: u64,
    fired: bool,
}

pub fn run_c11(case: &Case) -> Outcome {
    let m = &case.model;
    let mut out = Outcome::new(m);
    let mut r = SmallRng::seed_from_u64(case.sub);
    let cfg = Config::random_progressing(&mut r);
    cfg.label(&mut out);
    let entry = case.extra.get("entry").as_i64();
    let max_points = case.extra.get("max_points").as_i64().max(10) as u64;
    let obj = gen::gen_view(&mut r, m, false, true);
    let maximise = r.gen_bool(0.5);
    let sols = m.enumerate();
    if sols.len() > 300 {
        out.skip = Some("more than 300 solutions".into());
        return out;
    }
    let best = if maximise { sols.iter().map(|a| obj.val(a)).max() } else { sols.iter().map(|a| obj.val(a)).min() };
    let entry_name = ["satisfy", "iterate", "optimise(sat-unsat)", "optimise(unsat-sat)"][entry as usize];
    out.cover(format!("entry:{entry_name}"));
    out.config = Json::obj([("solver", cfg.to_json()), ("entry", Json::str(entry_name))]);

    // a third of the satisfy cases create a new variable between the interruption and the second call
    let extend_after_interrupt = entry == 0 && case.sub % 3 == 0;
    // one run: interrupted at `at` (None = never), then resumed without interruption
    let one = |at: Option<u64>| -> Result<(Outcome, RunResult), String> {
        guard(|| {
            let mut o = Outcome::default();
            let mut b = build(m, cfg.opts.to_options(), m.cons.len(), false, false);
            if b.post_err.is_some() {
                o.skip = Some("infeasible at post time".into());
                return (o, RunResult { polls: 0, fired: false });
            }
            let mut brancher = make_brancher(&cfg.br, &b.solver, &b.xs);
            let cap = 3_000_000;
            let mut t = StopAt::new(at, cap);
            let ctx = format!("{entry_name}, termination fires at poll {at:?}");
            match entry {
                0 => {
                    for round in 0..2 {
                        match b.solver.satisfy(&mut brancher, &mut t) {
                            SatisfactionResult::Satisfiable(sol) => {
                                let _ = check_solution(&mut o, m, &read_solution(&sol, &b.xs), &ctx);
                                break;
                            }
                            SatisfactionResult::Unsatisfiable => {
                                if !sols.is_empty() {
                                    o.fail("unsat-because-interrupted", format!("{ctx}: Unsatisfiable (round {round}) but the model has {} solutions", sols.len()));
                                }
                                break;
                            }
                            SatisfactionResult::Unknown => {
                                if round == 1 || !t.fired {
                                    o.fail("budget-exhausted", format!("{ctx}: Unknown without a firing termination condition"));
                                    break;
                                }
                                if extend_after_interrupt {
                                    // the model is extended before the solver is asked again: a fresh
                                    // variable with a hole in its domain (its value is free)
                                    let extra = b.solver.new_sparse_integer(vec![0, 2]);
                                    let mut xs_all = b.xs.clone();
                                    xs_all.push(X::I(extra));
                                    brancher = make_brancher(&cfg.br, &b.solver, &xs_all);
                                    o.count("model_extended_after_interrupt", 1);
                                }
                            }
                        }
                    }
                }
                1 => {
                    let mut seen = BTreeSet::new();
                    let mut unknowns = 0;
                    let mut it = b.solver.get_solution_iterator(&mut brancher, &mut t);
                    loop {
                        match it.next_solution() {
                            IteratedSolution::Solution(sol, _, _) => match read_solution(&sol, &b.xs) {
                                Ok(a) => {
                                    if !m.satisfies(&a) {
                                        o.fail("non-solution-yielded", format!("{ctx}: {a:?}"));
                                        break;
                                    }
                                    if !seen.insert(a.clone()) {
                                        o.fail("duplicate-solution", format!("{ctx}: {a:?} yielded twice"));
                                        break;
                                    }
                                }
                                Err(e) => {
                                    o.fail("partial-solution", format!("{ctx}: {e}"));
                                    break;
                                }
                            },
                            end @ (IteratedSolution::Finished | IteratedSolution::Unsatisfiable) => {
                                if let Some(a) = sols.difference(&seen).next() {
                                    o.fail("solution-missing-after-interruption", format!("{ctx}: iteration ended but {a:?} was never yielded ({} of {})", seen.len(), sols.len()));
                                } else if matches!(end, IteratedSolution::Unsatisfiable) && !seen.is_empty() {
                                    // (this iterator has yielded solutions: the end of the iteration is `Finished`)
                                    o.fail("unsatisfiable-after-solutions", format!("{ctx}: the iterator reported Unsatisfiable after it had yielded {} solutions", seen.len()));
                                }
                                break;
                            }
                            IteratedSolution::Unknown => {
                                unknowns += 1;
                                if unknowns > 1 || at.is_none() {
                                    o.fail("budget-exhausted", format!("{ctx}: Unknown without a firing termination condition"));
                                    break;
                                }
                            }
                        }
                    }
                }
                _ => {
                    let dir = if maximise { OptimisationDirection::Maximise } else { OptimisationDirection::Minimise };
                    let mut best_reported: Option<i128> = None;
                    for round in 0..2 {
                        let ov = mk_view(&obj, &b.xs);
                        let cb = |_: &Solver, _: SolutionReference, _: &BoxB| {};
                        let res = if entry == 2 {
                            b.solver.optimise(&mut brancher, &mut t, LinearSatUnsat::new(dir, ov, cb))
                        } else {
                            b.solver.optimise(&mut brancher, &mut t, LinearUnsatSat::new(dir, ov, cb))
                        };
                        match res {
                            OptimisationResult::Optimal(sol) => {
                                let a = read_solution(&sol, &b.xs);
                                if check_solution(&mut o, m, &a, &ctx) {
                                    let v = obj.val(&a.unwrap());
                                    if Some(v) != best {
                                        o.fail("optimal-because-interrupted", format!("{ctx}: Optimal (round {round}) with objective {v} but the optimum is {best:?}"));
                                    }
                                }
                                break;
                            }
                            OptimisationResult::Unsatisfiable => {
                                // after an interrupted round the solver may keep the cut "better than the best reported"
                                let lower_empty = match best_reported {
                                    None => sols.is_empty(),
                                    Some(b0) => !sols.iter().any(|a| if maximise { obj.val(a) > b0 } else { obj.val(a) < b0 }),
                                };
                                if !lower_empty {
                                    o.fail("unsat-because-interrupted", format!("{ctx}: Unsatisfiable (round {round}) but better solutions exist"));
                                }
                                break;
                            }
                            OptimisationResult::Satisfiable(sol) => {
                                let a = read_solution(&sol, &b.xs);
                                if !check_solution(&mut o, m, &a, &ctx) {
                                    break;
                                }
                                best_reported = Some(obj.val(&a.unwrap()));
                                if round == 1 || !t.fired {
                                    o.fail("budget-exhausted", format!("{ctx}: Satisfiable without a firing termination condition"));
                                    break;
                                }
                            }
                            OptimisationResult::Unknown => {
                                if round == 1 || !t.fired {
                                    o.fail("budget-exhausted", format!("{ctx}: Unknown without a firing termination condition"));
                                    break;
                                }
                            }
                        }
                    }
                }
            }
            (o, RunResult { polls: t.polls, fired: t.fired })
        })
    };

    // baseline: never interrupted; gives the number of polls N
    let base = one(None);
    let n = match base {
        Err(p) => {
            out.fail("panic", format!("uninterrupted {entry_name}: {p}"));
            return out;
        }
        Ok((o, rr)) => {
            if o.skip.is_some() {
                out.skip = o.skip;
                return out;
            }
            merge(&mut out, Ok(o));
            rr.polls
        }
    };
    if out.failed() {
        return out;
    }
    out.count("polls_uninterrupted", n);
    let stride = (n / max_points).max(1);
    let mut k = 0;
    let mut points = 0;
    let mut fired_runs = 0;
    while k < n {
        match one(Some(k)) {
            Err(p) => {
                out.fail("panic", format!("{entry_name} interrupted at poll {k}: {p}"));
                break;
            }
            Ok((o, rr)) => {
                if rr.fired {
                    fired_runs += 1;
                }
                merge(&mut out, Ok(o));
                if out.failed() {
                    break;
                }
            }
        }
        points += 1;
        k += stride;
    }
    out.count("interruption_points", points);
    out.count("interrupted_runs_that_fired", fired_runs);
    if stride == 1 {
        out.count("cases_with_every_poll_index", 1);
    }
    out.nontrivial = n >= 3 && fired_runs >= 2;
    out
}

// ---------------------------------------------------------------------------------------------
// C16: large magnitudes, small support

pub fn mag_class(m: &Model) -> Vec<String> {
    // magnitude classes computed from the input in i128
    let mut cl = BTreeSet::new();
    let bucket = |x: i128| -> &'static str {
        let x = x.abs();
        if x < (1 << 31) {
            "lt2^31"
        } else if x < (1 << 32) {
            "lt2^32"
        } else if x < (1i128 << 62) {
            "lt2^62"
        } else {
            "ge2^62"
        }
    };
    for (c, _) in &m.cons {
        let k = c.kind();
        let vb = |v: &View| {
            let d = &m.vars[v.var];
            let a = v.s as i128 * d.lo() as i128 + v.o as i128;
            let b = v.s as i128 * d.hi() as i128 + v.o as i128;
            (a.min(b), a.max(b))
        };
        let views = c.views();
        let maxabs = views.iter().map(|v| vb(v).0.abs().max(vb(v).1.abs())).max().unwrap_or(0);
        let _ = cl.insert(format!("mag.{k}.view_{}", bucket(maxabs)));
        match c {
            Con::LinLe(t, rhs) | Con::LinEq(t, rhs) | Con::LinNe(t, rhs) => {
                let sum_hi: i128 = t.iter().map(|v| vb(v).1.abs().max(vb(v).0.abs())).sum::<i128>() + (*rhs as i128).abs();
                let _ = cl.insert(format!("mag.{k}.sum_{}", bucket(sum_hi)));
            }
            Con::Times(a, b, _) => {
                let p = vb(a).0.abs().max(vb(a).1.abs()) * vb(b).0.abs().max(vb(b).1.abs());
                let _ = cl.insert(format!("mag.{k}.product_{}", bucket(p)));
            }
            Con::Plus(a, b, cc) => {
                let s: i128 = [a, b, cc].iter().map(|v| vb(v).0.abs().max(vb(v).1.abs())).sum();
                let _ = cl.insert(format!("mag.{k}.sum_{}", bucket(s)));
            }
            _ => {}
        }
    }
    cl.into_iter().collect()
}

/// C16 family (b): one linear inequality over 2-3 interval variables of which at least one spans (nearly)
/// the whole 32-bit range. The ground truth is analytic (the terms are independent, so the hull of every
/// variable follows from the minima of the other terms, computed in i128): post-time verdict, root bounds,
/// and two assumption solves per variable (the extreme value of its hull is attainable, the value just beyond
/// it is not).
pub fn run_c16_wide(case: &Case) -> Outcome {
    use pumpkin_solver::constraints;
    use pumpkin_solver::predicate;
    use pumpkin_solver::results::ProblemSolution;
    use pumpkin_solver::results::SatisfactionResultUnderAssumptions as SRA;
    use pumpkin_solver::variables::TransformableVariable;
    let w = case.extra.get("wide");
    let vars: Vec<(i64, i64)> = w.get("vars").as_arr().iter().map(|p| (p.as_arr()[0].as_i64(), p.as_arr()[1].as_i64())).collect();
    let coefs: Vec<i64> = w.get("coefs").as_arr().iter().map(|c| c.as_i64()).collect();
    let rhs = w.get("rhs").as_i64();
    let mut out = Outcome::default();
    out.class("kind.lin_le");
    out.class("mag.wide_domain");
    out.class("mag.regime.wide");
    let mut r = SmallRng::seed_from_u64(case.sub);
    let cfg = Config { opts: OptSpec::default_with_seed(r.gen()), br: BrSpec::Default };
    out.config = cfg.to_json();
    let n = vars.len();
    // exact ground truth
    let tmin: Vec<i128> = (0..n).map(|i| (coefs[i] as i128 * vars[i].0 as i128).min(coefs[i] as i128 * vars[i].1 as i128)).collect();
    let feasible = tmin.iter().sum::<i128>() <= rhs as i128;
    let div_floor = |a: i128, b: i128| -> i128 { let q = a / b; if a % b != 0 && ((a < 0) != (b < 0)) { q - 1 } else { q } };
    let div_ceil = |a: i128, b: i128| -> i128 { -div_floor(-a, b) };
    let hull: Vec<(i128, i128)> = (0..n)
        .map(|i| {
            let slack = rhs as i128 - (tmin.iter().sum::<i128>() - tmin[i]);
            if coefs[i] > 0 {
                (vars[i].0 as i128, (vars[i].1 as i128).min(div_floor(slack, coefs[i] as i128)))
            } else {
                ((vars[i].0 as i128).max(div_ceil(slack, coefs[i] as i128)), vars[i].1 as i128)
            }
        })
        .collect();
    let desc = format!(
        "{} <= {rhs} with {}",
        (0..n).map(|i| format!("{}*x{i}", coefs[i])).collect::<Vec<_>>().join(" + "),
        (0..n).map(|i| format!("x{i} in [{},{}]", vars[i].0, vars[i].1)).collect::<Vec<_>>().join(", ")
    );
    let res = guard(|| {
        let mut o = Outcome::default();
        let mut solver = Solver::with_options(cfg.opts.to_options());
        let xs: Vec<_> = vars.iter().map(|(lo, hi)| solver.new_bounded_integer(*lo as i32, *hi as i32)).collect();
        let terms: Vec<_> = (0..n).map(|i| xs[i].scaled(coefs[i] as i32)).collect();
        let posted = solver.add_constraint(constraints::less_than_or_equals(terms, rhs as i32)).post();
        if posted.is_err() {
            o.count("post_errors", 1);
            if feasible {
                o.fail("spurious-infeasibility", format!("posting {desc} returned an infeasibility error but the constraint has solutions"));
            }
            return o;
        }
        if !feasible {
            // the infeasibility may also be found by the first solve
            let mut brancher = solver.default_brancher();
            let mut t = StopAt::new(None, 200_000);
            if !matches!(solver.satisfy(&mut brancher, &mut t), SatisfactionResult::Unsatisfiable) {
                o.fail("solution-invented", format!("{desc} has no solution but the solver did not report Unsatisfiable"));
            }
            return o;
        }
        for i in 0..n {
            let (lb, ub) = (solver.lower_bound(&xs[i]) as i128, solver.upper_bound(&xs[i]) as i128);
            if lb > hull[i].0 || ub < hull[i].1 {
                o.fail("bound-excludes-solution", format!("after posting {desc}: x{i} in [{lb},{ub}] but its solutions span [{},{}]", hull[i].0, hull[i].1));
                return o;
            }
            if lb < vars[i].0 as i128 || ub > vars[i].1 as i128 {
                o.fail("bound-outside-domain", format!("after posting {desc}: x{i} in [{lb},{ub}]"));
                return o;
            }
            o.count("bounds_checked", 1);
        }
        // the ends of every hull are attainable, the values just beyond are not
        let mut brancher = solver.default_brancher();
        for i in 0..n {
            for upper in [false, true] {
                let end = if upper { hull[i].1 } else { hull[i].0 } as i32;
                let x = xs[i];
                let attain = if upper { predicate!(x >= end) } else { predicate!(x <= end) };
                let mut t = StopAt::new(None, 200_000);
                match solver.satisfy_under_assumptions(&mut brancher, &mut t, &[attain]) {
                    SRA::Satisfiable(sol) => {
                        let vals: Vec<i128> = xs.iter().map(|x| sol.get_integer_value(*x) as i128).collect();
                        let lhs: i128 = (0..n).map(|k| coefs[k] as i128 * vals[k]).sum();
                        if lhs > rhs as i128 || (0..n).any(|k| vals[k] < vars[k].0 as i128 || vals[k] > vars[k].1 as i128) || vals[i] != end as i128 {
                            o.fail("solution-invented", format!("{desc} under {attain}: reported {vals:?}"));
                            return o;
                        }
                    }
                    SRA::UnsatisfiableUnderAssumptions(_) | SRA::Unsatisfiable => {
                        o.fail("solution-lost", format!("{desc}: x{i} = {end} is attainable but the solver reports no solution under {attain}"));
                        return o;
                    }
                    SRA::Unknown => {
                        o.fail("budget-exhausted", format!("{desc} under {attain}: no answer within 200000 polls"));
                        return o;
                    }
                }
                let beyond = if upper { end as i128 + 1 } else { end as i128 - 1 };
                if beyond < vars[i].0 as i128 || beyond > vars[i].1 as i128 {
                    continue;
                }
                let b = beyond as i32;
                let exceed = if upper { predicate!(x >= b) } else { predicate!(x <= b) };
                let mut t = StopAt::new(None, 200_000);
                match solver.satisfy_under_assumptions(&mut brancher, &mut t, &[exceed]) {
                    SRA::Satisfiable(sol) => {
                        let vals: Vec<i128> = xs.iter().map(|x| sol.get_integer_value(*x) as i128).collect();
                        o.fail("solution-invented", format!("{desc} under {exceed}: reported {vals:?} although x{i} cannot pass {end}"));
                        return o;
                    }
                    SRA::UnsatisfiableUnderAssumptions(_) | SRA::Unsatisfiable => {}
                    SRA::Unknown => {
                        o.fail("budget-exhausted", format!("{desc} under {exceed}: no answer within 200000 polls"));
                        return o;
                    }
                }
                o.count("hull_ends_checked", 1);
            }
        }
        o
    });
    merge(&mut out, res);
    out.nontrivial = true;
    out.cover("family:wide-domain-linear");
    out.count(if feasible { "models_sat" } else { "models_unsat" }, 1);
    out
}

pub fn run_c16(case: &Case) -> Outcome {
    if !matches!(case.extra.get("wide"), Json::Null) {
        return run_c16_wide(case);
    }
    let m = &case.model;
    let mut out = Outcome::new(m);
    out.classes.retain(|c| c.starts_with("kind.") || c.starts_with("implied.") || c.starts_with("reified.") || c.starts_with("negated.") || c.ends_with("repeated_var"));
    for c in mag_class(m) {
        out.class(c);
    }
    out.class(if case.extra.get("regime").as_str() == "extreme" { "mag.regime.extreme" } else { "mag.regime.below-2^30" });
    let mut r = SmallRng::seed_from_u64(case.sub);
    let seed = r.gen();
    let cfg = Config { opts: OptSpec::default_with_seed(seed), br: BrSpec::Default };
    out.config = cfg.to_json();
    let expected = m.enumerate();
    pumpkin_solver::verif::enable();
    let res = guard(|| {
        let mut o = Outcome::default();
        // root bounds after posting must enclose all solutions (exact i128 ground truth)
        let b = build(m, cfg.opts.to_options(), m.cons.len(), false, false);
        if let Some(i) = b.post_err {
            o.count("post_errors", 1);
            if !m.enumerate_prefix(i + 1).is_empty() {
                o.fail("spurious-infeasibility", format!("posting constraint #{i} ({}) returned an infeasibility error but the model has solutions", m.cons[i].0.kind()));
            }
            return o;
        }
        for (i, x) in b.xs.iter().enumerate() {
            let (lb, ub) = match x {
                X::I(d) => (b.solver.lower_bound(d) as i64, b.solver.upper_bound(d) as i64),
                X::B(l) => (b.solver.lower_bound(l) as i64, b.solver.upper_bound(l) as i64),
            };
            if let (Some(mn), Some(mx)) = (expected.iter().map(|a| a[i]).min(), expected.iter().map(|a| a[i]).max()) {
                if lb > mn || ub < mx {
                    o.fail("bound-excludes-solution", format!("after posting, x{i} in [{lb},{ub}] but solutions use {mn}..{mx}"));
                    return o;
                }
            }
        }
        drop(b);
        if let Some(got) = crate::props_b::iterate_all(&mut o, m, &cfg, false, "iteration") {
            if !o.failed() {
                if let Some(a) = expected.difference(&got).next() {
                    o.fail("solution-lost", format!("{a:?} is a solution in exact arithmetic but was never yielded ({} of {} found)", got.len(), expected.len()));
                }
            }
        }
        o
    });
    let ev = pumpkin_solver::verif::drain();
    pumpkin_solver::verif::disable();
    // a non-solution under exact arithmetic is an "invented" solution
    let mut res = res;
    if let Ok(o) = &mut res {
        if let Some((k, _)) = &o.fail {
            if k == "non-solution-yielded" {
                o.fail.as_mut().unwrap().0 = "solution-invented".into();
            }
        }
    }
    merge(&mut out, res);
    nontrivial(&mut out, &ev, expected.len());
    out.nontrivial = true; // every case evaluates large-magnitude arithmetic at post time
    out.count(if expected.is_empty() { "models_unsat" } else { "models_sat" }, 1);
    out
}
