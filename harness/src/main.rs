//! vcheck: worker binary of the verification harness.
//!
//! vcheck <mode> --seed S --start A --count N [--tier quick|thorough]   run generated cases
//! vcheck <mode> --case-file F                                         re-run one recorded case
//! Output: JSON lines on stdout ({"start":i} before each case, then the case's result).
mod core;
mod drive;
mod events;
mod gen;
mod json;
mod model;
mod props_a;

use std::io::Write;

use rand::Rng;

use crate::core::*;
use crate::gen::Profile;
use crate::json::Json;

fn gen_case(mode: &str, seed: u64, idx: u64, _tier: &str) -> Case {
    let mut r = gen::case_rng(seed, gen::salt(mode), idx);
    let model = match mode {
        "c03" => {
            let mut p = Profile::mixed();
            p.max_space = 20_000.0;
            gen::gen_model(&mut r, &p)
        }
        _ => gen::gen_model(&mut r, &Profile::mixed()),
    };
    Case { model, sub: r.gen(), extra: Json::Null }
}

fn run_case(mode: &str, case: &Case) -> Outcome {
    match mode {
        "c01" => props_a::run_c01(case),
        "c02" => props_a::run_c02(case),
        "c03" => props_a::run_c03(case),
        "c04" => props_a::run_c04(case),
        "c05" => props_a::run_c05(case),
        "c12" => props_a::run_c12(case),
        m => panic!("unknown mode {m}"),
    }
}

fn main() {
    let args: Vec<String> = std::env::args().collect();
    let mode = args.get(1).expect("mode").clone();
    let mut seed = 1u64;
    let mut start = 0u64;
    let mut count = 1u64;
    let mut tier = "quick".to_string();
    let mut case_file: Option<String> = None;
    let mut describe = false;
    let mut i = 2;
    while i < args.len() {
        match args[i].as_str() {
            "--seed" => seed = args[i + 1].parse().unwrap(),
            "--start" => start = args[i + 1].parse().unwrap(),
            "--count" => count = args[i + 1].parse().unwrap(),
            "--tier" => tier = args[i + 1].clone(),
            "--case-file" => case_file = Some(args[i + 1].clone()),
            "--describe" => {
                describe = true;
                i += 1;
                continue;
            }
            a => panic!("unknown argument {a}"),
        }
        i += 2;
    }
    install_panic_hook();
    let stdout = std::io::stdout();
    let emit = |s: String| {
        let mut o = stdout.lock();
        let _ = writeln!(o, "{s}");
        let _ = o.flush();
    };
    if let Some(f) = case_file {
        let text = std::fs::read_to_string(&f).expect("case file");
        let j = Json::parse(&text).expect("case file json");
        let cj = if j.get("case").is_null() { &j } else { j.get("case") };
        let case = Case::from_json(cj);
        emit("{\"start\":0}".to_string());
        let out = run_case(&mode, &case);
        emit(out.to_json(0, &case, case.model.fingerprint()).to_string());
        return;
    }
    for idx in start..start + count {
        emit(format!("{{\"start\":{idx}}}"));
        let case = gen_case(&mode, seed, idx, &tier);
        if describe {
            let mut out = props_a::describe(&mode, &case);
            out.skip = Some("describe only".into());
            emit(out.to_json(idx, &case, case.model.fingerprint() ^ case.sub).to_string());
            continue;
        }
        let out = run_case(&mode, &case);
        emit(out.to_json(idx, &case, case.model.fingerprint() ^ case.sub).to_string());
    }
}
