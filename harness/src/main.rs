//! vcheck: worker binary of the verification harness.
//!
//! vcheck <mode> --seed S --start A --count N [--tier quick|thorough]   run generated cases
//! vcheck <mode> --case-file F                                         re-run one recorded case
//! Output: JSON lines on stdout ({"start":i} before each case, then the case's result).
mod core;
mod drive;
mod events;
mod gen;
mod json;
mod model;
mod props_a;
mod props_b;
mod props_c;
mod props_d;

use std::io::Write;

use rand::Rng;

use crate::core::*;
use crate::gen::Profile;
use crate::json::Json;

fn gen_case(mode: &str, seed: u64, idx: u64, tier: &str) -> Case {
    let mut r = gen::case_rng(seed, gen::salt(mode), idx);
    let thorough = tier == "thorough";
    let mut extra = Json::Null;
    let model = match mode {
        "c03" => {
            let mut p = if idx % 5 == 0 { Profile::clause_heavy() } else { Profile::mixed() };
            p.max_space = p.max_space.min(20_000.0);
            gen::gen_model(&mut r, &p)
        }
        "c17" if idx % 8 == 5 => gen::gen_cumul_profiles(&mut r),
        "c01" if idx % 10 == 1 => {
            // single large-magnitude constraints of C16's regime below 2^30 (sums and products of a few
            // constants leave the 32-bit range): every result path has to hand out true solutions there too
            // (products wrap most easily: half of these cases are multiplications)
            let kinds = ["times", "lin_le", "times", "lin_eq", "times", "lin_ne", "times", "plus", "times", "div", "times", "abs", "times", "max", "times", "min", "times", "element", "times", "bin_ne"];
            gen::gen_big(&mut r, kinds[((idx / 10) % kinds.len() as u64) as usize], false)
        }
        "c01" | "c04" | "c17" | "c20" if idx % 5 == 2 => gen::gen_model(&mut r, &Profile::clause_heavy()),
        "c02" if idx % 20 == 7 => gen::gen_deep_chain(&mut r),
        "c02" => {
            if idx % 5 == 0 {
                gen::gen_model(&mut r, &Profile::clause_heavy())
            } else if r.gen_bool(0.6) {
                gen::gen_hard(&mut r)
            } else {
                gen::gen_model(&mut r, &Profile::mixed())
            }
        }
        "c07" => {
            extra = Json::obj([("k", Json::Int(if thorough { 40 } else { 8 }))]);
            if idx % 10 == 3 {
                gen::gen_deep_chain(&mut r)
            } else if idx % 5 == 0 {
                gen::gen_model(&mut r, &Profile::clause_heavy())
            } else {
                // (each model is solved under up to 40 configurations, some of which run into the poll
                // budget, so the search space is kept smaller than elsewhere)
                gen::gen_hard_bounded(&mut r, 8_000.0)
            }
        }
        "c08" => {
            let extended = idx % 10 >= 7;
            let nopts = if thorough { 144 } else { 6 };
            extra = Json::obj([
                ("nopts", Json::Int(nopts)),
                ("first_opt", Json::Int(((idx * 6) % 144) as i128)),
                ("regime", Json::str(if extended { "extended" } else { "canonical" })),
            ]);
            gen::gen_c08(&mut r, extended)
        }
        "c09" => {
            let kinds = [
                "lin_le", "lin_eq", "lin_ne", "bin_eq", "bin_ne", "bin_le", "bin_lt", "clause", "conjunction", "plus", "times", "div", "abs", "max",
                "min", "elementd", "element", "all_different", "cumulativec", "bool_lin_le", "bool_lin_eq",
            ];
            let (m, st) = gen::gen_c09(&mut r, kinds[(idx % kinds.len() as u64) as usize]);
            extra = Json::obj([("literal_state", Json::str(st))]);
            m
        }
        "c17" => {
            let mut p = Profile::mixed();
            p.width = 3;
            p.ncons = (1, 4);
            if idx % 4 == 0 {
                p.kinds.push(("element", 3));
                p.kinds.push(("cumulative", 2));
            }
            if idx % 4 == 1 {
                // arithmetic constraints over sign-mixed domains with one linear side constraint
                p.kinds = vec![("times", 3), ("div", 2), ("abs", 2), ("max", 2), ("min", 2), ("plus", 1), ("elementd", 2)];
                p.ncons = (1, 2);
                p.nint = (3, 4);
                p.width = 6;
                p.lo = (-4, -1);
                p.sparse_p = 0.1;
                p.reif_p = 0.15;
                p.litdef_p = 0.0;
                let mut m = gen::gen_model(&mut r, &p);
                for k in ["lin_le", "lin_ne"] {
                    if let Some(c) = gen::gen_con(&mut r, &m, k, true) {
                        m.cons.push((c, model::Reif::Plain));
                    }
                }
                m
            } else {
                gen::gen_model(&mut r, &p)
            }
        }
        "c12" => {
            let mut p = Profile::mixed();
            p.litdef_p = 0.0;
            gen::gen_model(&mut r, &p)
        }
        "c10" => {
            let mut p = Profile::mixed();
            p.litdef_p = 0.0;
            p.ncons = (3, 8);
            p.max_space = 6_000.0;
            gen::gen_model(&mut r, &p)
        }
        "c11" => {
            extra = Json::obj([("entry", Json::Int((idx % 4) as i128)), ("max_points", Json::Int(if thorough { 400 } else { 40 }))]);
            let mut p = Profile::mixed();
            p.max_space = 6_000.0;
            if r.gen_bool(0.4) {
                gen::gen_hard(&mut r)
            } else {
                gen::gen_model(&mut r, &p)
            }
        }
        "c16" if idx % 13 == 12 => {
            // family (b): one linear inequality over interval variables spanning up to the whole 32-bit range
            const LIM: i64 = (1 << 31) - 1;
            let n = r.gen_range(2..=3);
            let wide = r.gen_range(0..n);
            let mut vars = vec![];
            let mut coefs = vec![];
            for i in 0..n {
                if i == wide || r.gen_range(0..4) == 0 {
                    let lo = [-LIM, -LIM + 5, -(1 << 30), -7, 0][r.gen_range(0..5)];
                    let hi = [LIM, LIM - 3, 1 << 30, (1 << 30) + 12345][r.gen_range(0..4)];
                    vars.push((lo, hi));
                    coefs.push(if r.gen_bool(0.5) { 1 } else { -1 });
                } else {
                    let lo = r.gen_range(-12..=12i64);
                    vars.push((lo, lo + r.gen_range(0..=20i64)));
                    coefs.push([1, -1, 2, -3, 5][r.gen_range(0..5)]);
                }
            }
            let rhs = [LIM, LIM - 10, 1 << 30, 0, 17, -(1 << 30), -LIM, -LIM + 9][r.gen_range(0..8)] + if r.gen_bool(0.3) { 0 } else { r.gen_range(-3..=3i64) };
            let rhs = rhs.clamp(-LIM, LIM);
            extra = Json::obj([
                ("regime", Json::str("wide")),
                (
                    "wide",
                    Json::obj([
                        ("vars", Json::arr(vars.iter(), |p| Json::Arr(vec![Json::int(p.0), Json::int(p.1)]))),
                        ("coefs", Json::arr(coefs.iter(), |c| Json::int(*c))),
                        ("rhs", Json::int(rhs)),
                    ]),
                ),
            ]);
            model::Model::default()
        }
        "c16" => {
            let kinds = ["lin_le", "lin_eq", "lin_ne", "plus", "times", "div", "abs", "max", "min", "element", "bin_le", "bin_ne"];
            let extreme = (idx / kinds.len() as u64) % 2 == 1;
            extra = Json::obj([("regime", Json::str(if extreme { "extreme" } else { "below-2^30" }))]);
            gen::gen_big(&mut r, kinds[(idx % kinds.len() as u64) as usize], extreme)
        }
        "c06" => {
            let optimise = idx % 5 >= 3;
            extra = Json::obj([("proof", Json::str(["scaffold", "full", "hinted"][(idx % 3) as usize])), ("optimise", Json::Bool(optimise))]);
            let mut m = gen::gen_hard(&mut r);
            for _ in 0..3000 {
                let mut p = Profile::mixed();
                p.max_space = 4_000.0;
                p.ncons = (2, 6);
                m = if r.gen_bool(0.5) { gen::gen_model(&mut r, &p) } else { gen::gen_hard(&mut r) };
                if m.space() > 20_000.0 {
                    continue;
                }
                let unsat = m.enumerate().is_empty();
                if unsat != optimise {
                    // most unsatisfiability proofs should need search: reject models that root
                    // propagation alone refutes (except for one case in eight)
                    if !optimise && idx % 8 != 0 {
                        let refuted_at_post = core::guard(|| {
                            drive::build(&m, drive::OptSpec::default_with_seed(1).to_options(), m.cons.len(), false, false).post_err.is_some()
                        })
                        .unwrap_or(true);
                        if refuted_at_post {
                            continue;
                        }
                    }
                    break;
                }
            }
            m
        }
        "c19" => model::Model { vars: vec![], cons: vec![] },
        "c18" => {
            let pair = idx % 154;
            extra = Json::obj([
                ("vi", Json::Int((pair / 14) as i128)),
                ("wi", Json::Int((pair % 14) as i128)),
                ("shape", Json::Int(((idx / 154) % 5) as i128)),
            ]);
            let mut p = Profile::mixed();
            p.sparse_p = 0.4;
            p.width = 5;
            gen::gen_model(&mut r, &p)
        }
        _ => gen::gen_model(&mut r, &Profile::mixed()),
    };
    Case { model, sub: r.gen(), extra }
}

fn run_case(mode: &str, case: &Case) -> Outcome {
    match mode {
        "c01" => props_a::run_c01(case),
        "c02" if case.model.vars.len() > 400 => props_a::run_c02_deep(case),
        "c02" => props_a::run_c02(case),
        "c03" => props_a::run_c03(case),
        "c04" => props_a::run_c04(case),
        "c05" => props_a::run_c05(case),
        "c12" => props_a::run_c12(case),
        "c07" if case.model.vars.len() > 400 => props_b::run_c07_deep(case),
        "c07" => props_b::run_c07(case),
        "c08" => props_b::run_c08(case),
        "c09" => props_b::run_c09(case),
        "c17" => props_b::run_c17(case),
        "c10" => props_c::run_c10(case),
        "c11" => props_c::run_c11(case),
        "c16" => props_c::run_c16(case),
        "c06" => props_d::run_c06(case),
        "c19" => props_d::run_c19(case),
        "c20" => props_d::run_c20(case),
        "c18" => props_b::run_c18(case),
        m => panic!("unknown mode {m}"),
    }
}

fn main() {
    let args: Vec<String> = std::env::args().collect();
    let mode = args.get(1).expect("mode").clone();
    let mut seed = 1u64;
    let mut start = 0u64;
    let mut count = 1u64;
    let mut tier = "quick".to_string();
    let mut case_file: Option<String> = None;
    let mut describe = false;
    let mut i = 2;
    while i < args.len() {
        match args[i].as_str() {
            "--seed" => seed = args[i + 1].parse().unwrap(),
            "--start" => start = args[i + 1].parse().unwrap(),
            "--count" => count = args[i + 1].parse().unwrap(),
            "--tier" => tier = args[i + 1].clone(),
            "--case-file" => case_file = Some(args[i + 1].clone()),
            "--describe" => {
                describe = true;
                i += 1;
                continue;
            }
            a => panic!("unknown argument {a}"),
        }
        i += 2;
    }
    install_panic_hook();
    let stdout = std::io::stdout();
    let emit = |s: String| {
        let mut o = stdout.lock();
        let _ = writeln!(o, "{s}");
        let _ = o.flush();
    };
    if let Some(f) = case_file {
        let text = std::fs::read_to_string(&f).expect("case file");
        let j = Json::parse(&text).expect("case file json");
        let cj = if j.get("case").is_null() { &j } else { j.get("case") };
        let case = Case::from_json(cj);
        emit("{\"start\":0}".to_string());
        let out = run_case(&mode, &case);
        emit(out.to_json(0, &case, case.model.fingerprint()).to_string());
        return;
    }
    for idx in start..start + count {
        emit(format!("{{\"start\":{idx}}}"));
        let case = gen_case(&mode, seed, idx, &tier);
        if describe {
            let mut out = props_a::describe(&mode, &case);
            out.skip = Some("describe only".into());
            emit(out.to_json(idx, &case, case.model.fingerprint() ^ case.sub).to_string());
            continue;
        }
        let out = run_case(&mode, &case);
        emit(out.to_json(idx, &case, case.model.fingerprint() ^ case.sub).to_string());
    }
}
