//! Seeded generators for library models.
use rand::rngs::SmallRng;
use rand::Rng;
use rand::SeedableRng;

use crate::model::*;

pub fn case_rng(seed: u64, mode_salt: u64, idx: u64) -> SmallRng {
    // splitmix-style mixing so that neighbouring (seed, idx) pairs give unrelated streams
    let mut z = seed
        .wrapping_mul(0x9E3779B97F4A7C15)
        .wrapping_add(mode_salt.wrapping_mul(0xBF58476D1CE4E5B9))
        .wrapping_add(idx.wrapping_mul(0x94D049BB133111EB));
    z = (z ^ (z >> 30)).wrapping_mul(0xBF58476D1CE4E5B9);
    z = (z ^ (z >> 27)).wrapping_mul(0x94D049BB133111EB);
    z ^= z >> 31;
    SmallRng::seed_from_u64(z)
}

pub fn salt(s: &str) -> u64 {
    use std::hash::Hasher;
    let mut h = Fnv(0xcbf29ce484222325);
    h.write(s.as_bytes());
    h.finish()
}

#[derive(Clone, Debug)]
pub struct Profile {
    pub kinds: Vec<(&'static str, u32)>,
    pub nint: (usize, usize),
    pub nbool: (usize, usize),
    pub ncons: (usize, usize),
    /// maximal (hi - lo) of interval domains
    pub width: i64,
    pub lo: (i64, i64),
    pub sparse_p: f64,
    pub views: bool,
    pub reif_p: f64,
    pub max_space: f64,
    /// probability that a 0-1 variable is created with `new_literal_for_predicate`
    pub litdef_p: f64,
}

pub const ALL_KINDS: [&str; 22] = [
    "lin_le", "lin_eq", "lin_ne", "bin_eq", "bin_ne", "bin_le", "bin_lt", "plus", "times", "div", "abs", "max", "min", "element",
    "all_different", "cumulative", "clause", "conjunction", "bool_lin_le", "bool_lin_eq", "elementd", "cumulativec",
];

impl Profile {
    /// The general mixed profile: every constraint kind in its well-behaved regime (`elementd` =
    /// element over pairwise distinct variables, `cumulativec` = canonical cumulative).
    pub fn mixed() -> Profile {
        Profile {
            kinds: vec![
                ("lin_le", 4),
                ("lin_eq", 4),
                ("lin_ne", 4),
                ("bin_eq", 1),
                ("bin_ne", 1),
                ("bin_le", 1),
                ("bin_lt", 1),
                ("plus", 2),
                ("times", 3),
                ("div", 3),
                ("abs", 2),
                ("max", 2),
                ("min", 2),
                ("elementd", 3),
                ("all_different", 2),
                ("cumulativec", 3),
                ("clause", 2),
                ("conjunction", 1),
                ("bool_lin_le", 1),
                ("bool_lin_eq", 1),
                ("predicate_clause", 3),
                ("view_clause", 2),
            ],
            nint: (2, 5),
            nbool: (1, 2),
            ncons: (1, 5),
            width: 4,
            lo: (-3, 2),
            sparse_p: 0.25,
            views: true,
            reif_p: 0.3,
            max_space: 60_000.0,
            litdef_p: 0.12,
        }
    }
    /// Clauses over atomic predicates of integer variables with wider domains, plus a few linear
    /// constraints: exercises the nogood propagator's watchers for all four predicate kinds.
    pub fn clause_heavy() -> Profile {
        let mut p = Profile::mixed();
        p.kinds = vec![("predicate_clause", 6), ("view_clause", 3), ("lin_le", 2), ("lin_ne", 1), ("bin_ne", 1), ("bin_lt", 1)];
        p.nint = (2, 4);
        p.nbool = (0, 1);
        p.ncons = (2, 6);
        p.width = 7;
        p.lo = (-1, 1);
        p.sparse_p = 0.15;
        p.reif_p = 0.0;
        p.litdef_p = 0.0;
        p.max_space = 5_000.0;
        p
    }
    pub fn only(kinds: &[&'static str]) -> Profile {
        let mut p = Profile::mixed();
        p.kinds = kinds.iter().map(|k| (*k, 1)).collect();
        p
    }
}

pub fn gen_view(r: &mut SmallRng, m: &Model, ints_only: bool, views: bool) -> View {
    loop {
        let var = r.gen_range(0..m.vars.len());
        if ints_only && m.vars[var].kind == VarKind::Bool {
            continue;
        }
        if !views {
            return View::plain(var);
        }
        let s = match r.gen_range(0..12) {
            0..=6 => 1,
            7..=8 => -1,
            9 => 2,
            10 => -2,
            _ => [3, -3][r.gen_range(0..2)],
        };
        let o = if r.gen_range(0..4) == 0 { r.gen_range(-2..3) } else { 0 };
        return View { var, s, o };
    }
}

fn shuffle<T>(r: &mut SmallRng, v: &mut [T]) {
    for i in (1..v.len()).rev() {
        let j = r.gen_range(0..=i);
        v.swap(i, j);
    }
}

pub fn gen_vars(r: &mut SmallRng, p: &Profile) -> Model {
    let nint = r.gen_range(p.nint.0..=p.nint.1);
    let nbool = r.gen_range(p.nbool.0..=p.nbool.1);
    let mut m = Model::default();
    for _ in 0..nint {
        if r.gen_bool(p.sparse_p) {
            let lo = r.gen_range(p.lo.0..=p.lo.1);
            let mut d: Vec<i64> = (lo..=lo + p.width + 3).filter(|_| r.gen_bool(0.5)).collect();
            if d.is_empty() {
                d.push(lo);
            }
            m.vars.push(Var { dom: d, kind: VarKind::Sparse });
        } else {
            let lo = r.gen_range(p.lo.0..=p.lo.1);
            let hi = lo + r.gen_range(0..=p.width);
            m.vars.push(Var { dom: (lo..=hi).collect(), kind: VarKind::Interval });
        }
    }
    for _ in 0..nbool {
        m.vars.push(Var { dom: vec![0, 1], kind: VarKind::Bool });
    }
    // interleave so that literals are not always the last variables
    shuffle(r, &mut m.vars);
    if !m.vars.iter().any(|v| v.kind != VarKind::Bool) {
        m.vars.push(Var { dom: vec![0, 1, 2], kind: VarKind::Interval });
    }
    // literals defined by a predicate over an earlier integer variable
    for i in 0..m.vars.len() {
        if m.vars[i].kind == VarKind::Bool && r.gen_bool(p.litdef_p) {
            let earlier: Vec<usize> = (0..i).filter(|&j| m.vars[j].kind != VarKind::Bool).collect();
            if earlier.is_empty() {
                continue;
            }
            let var = earlier[r.gen_range(0..earlier.len())];
            let d = &m.vars[var];
            let v = r.gen_range(d.lo()..=d.hi());
            m.cons.push((Con::LitDef(i, MPred { var, k: [PK::Ge, PK::Le, PK::Eq, PK::Ne][r.gen_range(0..4)], v }), Reif::Plain));
        }
    }
    m
}

fn gen_lits(r: &mut SmallRng, bools: &[usize], n: (usize, usize)) -> Vec<Lit> {
    (0..r.gen_range(n.0..=n.1)).map(|_| (bools[r.gen_range(0..bools.len())], r.gen_bool(0.5))).collect()
}

/// One constraint of kind `k`, or None when the model's variables cannot support it.
pub fn gen_con(r: &mut SmallRng, m: &Model, k: &str, views: bool) -> Option<Con> {
    let bools: Vec<usize> = (0..m.vars.len()).filter(|&i| m.vars[i].kind == VarKind::Bool).collect();
    let ints: Vec<usize> = (0..m.vars.len()).filter(|&i| m.vars[i].kind != VarKind::Bool).collect();
    let mut vw = |r: &mut SmallRng, ints_only: bool| gen_view(r, m, ints_only, views);
    let rhs = r.gen_range(-4..7);
    Some(match k {
        "lin_le" | "lin_eq" | "lin_ne" => {
            let n = r.gen_range(1..=4);
            let t: Vec<View> = (0..n).map(|_| vw(r, false)).collect();
            match k {
                "lin_le" => Con::LinLe(t, rhs),
                "lin_eq" => Con::LinEq(t, rhs),
                _ => Con::LinNe(t, rhs),
            }
        }
        "bin_eq" => Con::BinEq(vw(r, false), vw(r, false)),
        "bin_ne" => Con::BinNe(vw(r, false), vw(r, false)),
        "bin_le" => Con::BinLe(vw(r, false), vw(r, false)),
        "bin_lt" => Con::BinLt(vw(r, false), vw(r, false)),
        "plus" => Con::Plus(vw(r, false), vw(r, false), vw(r, false)),
        "times" => Con::Times(vw(r, true), vw(r, true), vw(r, true)),
        "div" => {
            let d = (0..8).map(|_| vw(r, true)).find(|d| !m.vars[d.var].dom.iter().any(|x| d.s * x + d.o == 0))?;
            Con::Div(vw(r, true), d, vw(r, true))
        }
        "abs" => Con::Abs(vw(r, true), vw(r, true)),
        "max" => Con::Max((0..r.gen_range(1..=3)).map(|_| vw(r, true)).collect(), vw(r, true)),
        "min" => Con::Min((0..r.gen_range(1..=3)).map(|_| vw(r, true)).collect(), vw(r, true)),
        "element" => Con::Elem(vw(r, true), (0..r.gen_range(1..=4)).map(|_| vw(r, true)).collect(), vw(r, true)),
        "elementd" => {
            // pairwise distinct variables
            let mut pick = ints.clone();
            shuffle(r, &mut pick);
            if pick.len() < 3 {
                return None;
            }
            let na = r.gen_range(1..=(pick.len() - 2).min(4));
            let mut v1 = |r: &mut SmallRng, v: usize| {
                if views {
                    View {
                        var: v,
                        s: if r.gen_range(0..4) == 0 { -1 } else { 1 },
                        o: if r.gen_range(0..3) == 0 { r.gen_range(-1..3) } else { 0 },
                    }
                } else {
                    View::plain(v)
                }
            };
            Con::Elem(v1(r, pick[0]), (0..na).map(|k| v1(r, pick[2 + k])).collect(), v1(r, pick[1]))
        }
        "all_different" => Con::AllDiff((0..r.gen_range(2..=4)).map(|_| vw(r, false)).collect()),
        "cumulative" => {
            // extended regime: everything the API accepts
            let nt = r.gen_range(1..=4);
            let st: Vec<View> = (0..nt).map(|_| vw(r, true)).collect();
            Con::Cumul(
                st,
                (0..nt).map(|_| r.gen_range(0..4)).collect(),
                (0..nt).map(|_| r.gen_range(0..4)).collect(),
                r.gen_range(0..4),
                r.gen_range(0..145),
            )
        }
        "cumulativec" => {
            // canonical regime: distinct variables with non-negative domains, offset views, duration >= 1,
            // 1 <= usage <= capacity
            let mut pick: Vec<usize> = ints.iter().copied().filter(|&i| m.vars[i].lo() >= 0).collect();
            if pick.is_empty() {
                return None;
            }
            shuffle(r, &mut pick);
            let nt = r.gen_range(1..=pick.len().min(4));
            let cap = r.gen_range(1..4);
            let st: Vec<View> = pick[..nt]
                .iter()
                .map(|&v| View { var: v, s: 1, o: if views && r.gen_range(0..3) == 0 { r.gen_range(0..3) } else { 0 } })
                .collect();
            Con::Cumul(
                st,
                (0..nt).map(|_| r.gen_range(1..4)).collect(),
                (0..nt).map(|_| r.gen_range(1..=cap)).collect(),
                cap,
                r.gen_range(0..145),
            )
        }
        "clause" => {
            if bools.is_empty() {
                return None;
            }
            Con::Clause(gen_lits(r, &bools, (1, 3)))
        }
        "predicate_clause" => {
            let n = r.gen_range(1..=3);
            Con::PClause(
                (0..n)
                    .map(|_| {
                        let var = r.gen_range(0..m.vars.len());
                        let d = &m.vars[var];
                        let v = if r.gen_range(0..6) == 0 { r.gen_range(d.lo() - 1..=d.hi() + 1) } else { r.gen_range(d.lo()..=d.hi()) };
                        MPred { var, k: [PK::Eq, PK::Eq, PK::Ne, PK::Ge, PK::Le][r.gen_range(0..5)], v }
                    })
                    .collect(),
            )
        }
        "view_clause" => {
            // predicates over scaled / offset views; right-hand sides that the view cannot hit included
            if ints.is_empty() {
                return None;
            }
            let n = r.gen_range(1..=3);
            Con::VClause(
                (0..n)
                    .map(|_| {
                        let var = ints[r.gen_range(0..ints.len())];
                        let d = &m.vars[var];
                        let v = View { var, s: [1, -1, 2, -2, 3, -3][r.gen_range(0..6)], o: r.gen_range(-2..=2) };
                        let (a, b) = (v.s * d.lo() + v.o, v.s * d.hi() + v.o);
                        let c = r.gen_range(a.min(b) - 1..=a.max(b) + 1);
                        (v, [PK::Eq, PK::Ne, PK::Ne, PK::Ge, PK::Le][r.gen_range(0..5)], c)
                    })
                    .collect(),
            )
        }
        "conjunction" => {
            if bools.is_empty() {
                return None;
            }
            Con::Conj(gen_lits(r, &bools, (1, 3)))
        }
        "bool_lin_le" => {
            if bools.is_empty() {
                return None;
            }
            let l = gen_lits(r, &bools, (1, 4));
            let w: Vec<i64> = l.iter().map(|_| [1, 1, 2, 3, -1, -2][r.gen_range(0..6)]).collect();
            Con::BoolLe(w, l, r.gen_range(-2..5))
        }
        "bool_lin_eq" => {
            if bools.is_empty() || ints.is_empty() {
                return None;
            }
            let l = gen_lits(r, &bools, (1, 4));
            let w: Vec<i64> = l.iter().map(|_| [1, 1, 2, 3, -1, -2][r.gen_range(0..6)]).collect();
            Con::BoolEq(w, l, ints[r.gen_range(0..ints.len())])
        }
        other => panic!("harness: unknown constraint kind {other}"),
    })
}

pub fn pick_kind<'a>(r: &mut SmallRng, kinds: &'a [(&'static str, u32)]) -> &'a str {
    let total: u32 = kinds.iter().map(|k| k.1).sum();
    let mut x = r.gen_range(0..total);
    for (k, w) in kinds {
        if x < *w {
            return k;
        }
        x -= w;
    }
    unreachable!()
}

pub fn gen_reif(r: &mut SmallRng, m: &Model, c: &Con, reif_p: f64) -> Reif {
    if matches!(c, Con::PClause(..) | Con::VClause(..) | Con::LitDef(..)) {
        return Reif::Plain;
    }
    let bools: Vec<usize> = (0..m.vars.len()).filter(|&i| m.vars[i].kind == VarKind::Bool).collect();
    if bools.is_empty() || !r.gen_bool(reif_p) {
        return Reif::Plain;
    }
    let l = (bools[r.gen_range(0..bools.len())], r.gen_bool(0.7));
    if c.negatable() {
        match r.gen_range(0..3) {
            0 => Reif::Implied(l),
            1 => Reif::Reified(l),
            _ => Reif::Negated,
        }
    } else {
        Reif::Implied(l)
    }
}

pub fn gen_model(r: &mut SmallRng, p: &Profile) -> Model {
    loop {
        let mut m = gen_vars(r, p);
        if m.space() > p.max_space {
            continue;
        }
        let nc = m.cons.len() + r.gen_range(p.ncons.0..=p.ncons.1);
        let mut tries = 0;
        while m.cons.len() < nc && tries < 50 {
            tries += 1;
            let k = pick_kind(r, &p.kinds).to_string();
            let Some(c) = gen_con(r, &m, &k, p.views) else { continue };
            let reif = gen_reif(r, &m, &c, p.reif_p);
            m.cons.push((c, reif));
        }
        if m.cons.iter().any(|c| !matches!(c.0, Con::LitDef(..))) {
            return m;
        }
    }
}

/// Input-class labels, computed from the case itself.
pub fn classes(m: &Model) -> Vec<String> {
    let mut c = std::collections::BTreeSet::new();
    if m.vars.len() > 400 {
        let _ = c.insert("shape.deep_chain".to_string());
    }
    for v in &m.vars {
        if v.kind == VarKind::Sparse {
            let _ = c.insert("dom.sparse".to_string());
        }
        if v.lo() < 0 {
            let _ = c.insert("dom.negative".to_string());
        }
    }
    for (con, reif) in &m.cons {
        let k = con.kind();
        let _ = c.insert(format!("kind.{k}"));
        match reif {
            Reif::Plain => {}
            Reif::Implied(_) => {
                let _ = c.insert(format!("implied.{k}"));
            }
            Reif::Reified(_) => {
                let _ = c.insert(format!("reified.{k}"));
            }
            Reif::Negated => {
                let _ = c.insert(format!("negated.{k}"));
            }
        }
        for v in con.views() {
            if v.s < 0 {
                let _ = c.insert("view.scale_neg".to_string());
            }
            if v.s.abs() > 1 {
                let _ = c.insert("view.scaled".to_string());
            }
            if v.o != 0 {
                let _ = c.insert("view.offset".to_string());
            }
        }
        let vars: Vec<usize> = con.views().iter().map(|v| v.var).collect();
        let repeated = (0..vars.len()).any(|i| (i + 1..vars.len()).any(|j| vars[i] == vars[j]));
        if repeated {
            let _ = c.insert("repeated_var".to_string());
        }
        match con {
            Con::Elem(..) => {
                if repeated {
                    let _ = c.insert("element.repeated_var".to_string());
                }
            }
            Con::Times(..) | Con::Div(..) | Con::Abs(..) | Con::Max(..) | Con::Min(..) | Con::Plus(..) => {
                if repeated {
                    let _ = c.insert(format!("{k}.repeated_var"));
                }
            }
            Con::LinLe(..) | Con::LinEq(..) | Con::LinNe(..) | Con::BinEq(..) | Con::BinNe(..) | Con::BinLe(..) | Con::BinLt(..) | Con::AllDiff(..) => {
                if repeated {
                    let _ = c.insert("linear.repeated_var".to_string());
                }
            }
            Con::Cumul(st, du, rq, cap, _) => {
                let mut canonical = true;
                if repeated {
                    let _ = c.insert("cumulative.repeated_var".to_string());
                    canonical = false;
                }
                if st.iter().any(|v| {
                    let d = &m.vars[v.var];
                    (v.s * d.lo() + v.o).min(v.s * d.hi() + v.o) < 0
                }) {
                    let _ = c.insert("cumulative.negative_start".to_string());
                    canonical = false;
                }
                if st.iter().any(|v| v.s != 1) {
                    let _ = c.insert("cumulative.scaled_start".to_string());
                    canonical = false;
                }
                if du.iter().any(|d| *d == 0) {
                    let _ = c.insert("cumulative.zero_duration".to_string());
                    canonical = false;
                }
                if rq.iter().any(|d| *d == 0) {
                    let _ = c.insert("cumulative.zero_usage".to_string());
                    canonical = false;
                }
                if rq.iter().any(|d| d > cap) {
                    let _ = c.insert("cumulative.usage_gt_capacity".to_string());
                    canonical = false;
                }
                if *cap == 0 {
                    let _ = c.insert("cumulative.capacity0".to_string());
                    canonical = false;
                }
                if st.iter().any(|v| m.vars[v.var].kind == VarKind::Sparse) {
                    let _ = c.insert("cumulative.sparse_start".to_string());
                }
                let _ = c.insert(if canonical { "cumulative.canonical" } else { "cumulative.extended" }.to_string());
            }
            _ => {}
        }
    }
    c.into_iter().collect()
}

// ---------------------------------------------------------------------------------------------
// property-specific generators

/// C08: one or two cumulative constraints with side constraints. `extended` = everything the API
/// accepts (zero durations / usages, usage > capacity, negative starts, scaled views, repeated
/// variables); otherwise the canonical regime.
pub fn gen_c08(r: &mut SmallRng, extended: bool) -> Model {
    loop {
        let mut p = Profile::mixed();
        p.nint = (2, 5);
        p.nbool = (0, 1);
        p.width = 5;
        p.lo = if extended { (-2, 2) } else { (0, 3) };
        p.sparse_p = 0.25;
        p.litdef_p = 0.0;
        let mut m = gen_vars(r, &p);
        if m.space() > 30_000.0 {
            continue;
        }
        let ncum = if r.gen_range(0..4) == 0 { 2 } else { 1 };
        for _ in 0..ncum {
            if let Some(c) = gen_con(r, &m, if extended { "cumulative" } else { "cumulativec" }, true) {
                let has_bool = m.vars.iter().any(|v| v.kind == VarKind::Bool);
                let reif = if has_bool && extended && r.gen_range(0..6) == 0 { gen_reif(r, &m, &c, 1.0) } else { Reif::Plain };
                m.cons.push((c, reif));
            }
        }
        if m.cons.is_empty() {
            continue;
        }
        for _ in 0..r.gen_range(0..3) {
            let k = ["bin_le", "bin_lt", "lin_le", "bin_ne", "lin_ne"][r.gen_range(0..5)];
            if let Some(c) = gen_con(r, &m, k, true) {
                m.cons.push((c, Reif::Plain));
            }
        }
        return m;
    }
}

/// C09: one (half-)reified or negated constraint of a given kind, optionally with the literal
/// decided before the constraint is posted, plus side constraints.
pub fn gen_c09(r: &mut SmallRng, kind: &str) -> (Model, &'static str) {
    loop {
        let mut p = Profile::mixed();
        p.nbool = (1, 2);
        p.nint = (2, 4);
        let mut m = gen_vars(r, &p);
        if m.space() > 20_000.0 {
            continue;
        }
        let Some(c) = gen_con(r, &m, kind, true) else { continue };
        let bools: Vec<usize> = (0..m.vars.len()).filter(|&i| m.vars[i].kind == VarKind::Bool).collect();
        let l = (bools[r.gen_range(0..bools.len())], r.gen_bool(0.7));
        let reif = if c.negatable() {
            match r.gen_range(0..5) {
                0 | 1 => Reif::Implied(l),
                2 | 3 => Reif::Reified(l),
                _ => Reif::Negated,
            }
        } else {
            Reif::Implied(l)
        };
        let state = match r.gen_range(0..3) {
            0 => "free",
            1 => "true",
            _ => "false",
        };
        if !matches!(reif, Reif::Negated) {
            match state {
                "true" => m.cons.push((Con::Clause(vec![l]), Reif::Plain)),
                "false" => m.cons.push((Con::Clause(vec![(l.0, !l.1)]), Reif::Plain)),
                _ => {}
            }
        }
        m.cons.push((c, reif));
        for _ in 0..r.gen_range(0..3) {
            let k = ["lin_le", "lin_ne", "bin_ne", "clause", "lin_eq"][r.gen_range(0..5)];
            if let Some(c) = gen_con(r, &m, k, true) {
                m.cons.push((c, Reif::Plain));
            }
        }
        return (m, state);
    }
}

/// C02 / C07: models near the phase transition that produce conflicts.
pub fn gen_hard(r: &mut SmallRng) -> Model {
    gen_hard_bounded(r, 60_000.0)
}

/// Deep implication chain: 0-1 variables x_0 <= x_1 <= ... <= x_{n-1} (n > 500, posted as binary
/// inequalities or as clauses), a few free 0-1 variables y, and random clauses over the y's and chain
/// variables planted at distances 495..=505 from each other. One decision fixes a long stretch of the
/// chain through n single-step reasons, so conflict analysis and recursive nogood minimisation walk
/// implication paths around their depth limit (500). The reference enumerator handles these models
/// (it checks x_i <= x_{i+1} as soon as both are assigned: O(n^2) nodes).
pub fn gen_deep_chain(r: &mut SmallRng) -> Model {
    let a: usize = r.gen_range(0..12);
    let n: usize = a + 507 + r.gen_range(0..24);
    let ny: usize = r.gen_range(4..=8);
    let mut m = Model::default();
    for _ in 0..n + ny {
        m.vars.push(Var { dom: vec![0, 1], kind: VarKind::Bool });
    }
    let style = r.gen_range(0..3);
    for i in 0..n - 1 {
        let as_clause = match style {
            0 => false,
            1 => true,
            _ => r.gen_bool(0.5),
        };
        if as_clause {
            m.cons.push((Con::Clause(vec![(i, false), (i + 1, true)]), Reif::Plain));
        } else {
            m.cons.push((Con::BinLe(View::plain(i), View::plain(i + 1)), Reif::Plain));
        }
    }
    // planted chain positions: a, and a + d for several d around the depth limit, plus a few others
    let mut planted: Vec<usize> = vec![a];
    let d0 = r.gen_range(497..=501usize);
    planted.push(a + d0);
    for d in 495..=505usize {
        if d != d0 && r.gen_bool(0.2) {
            planted.push(a + d);
        }
    }
    let npairs = planted.len() - 1;
    for _ in 0..3 {
        planted.push(r.gen_range(0..n));
    }
    let ys: Vec<usize> = (n..n + ny).collect();
    let ncl = r.gen_range(ny * 2..=ny * 5);
    let neg_p = [0.3, 0.5, 0.7][r.gen_range(0..3)];
    for _ in 0..ncl {
        let mut lits: Vec<Lit> = vec![];
        for _ in 0..r.gen_range(2..=3) {
            lits.push((ys[r.gen_range(0..ny)], r.gen_bool(0.5)));
        }
        if r.gen_bool(0.4) {
            // both ends of a planted pair with the same polarity: the learned nogood then contains
            // two chain predicates of which one is implied by the other through `d` reason steps
            let hi = planted[1 + r.gen_range(0..npairs)];
            let pol = !r.gen_bool(neg_p);
            if r.gen_bool(0.5) {
                lits.push((a, pol));
                lits.push((hi, pol));
            } else {
                lits.push((hi, pol));
                lits.push((a, pol));
            }
        } else {
            for _ in 0..r.gen_range(0..=2) {
                lits.push((planted[r.gen_range(0..planted.len())], !r.gen_bool(neg_p)));
            }
        }
        if r.gen_range(0..5) == 0 {
            let w: Vec<i64> = lits.iter().map(|_| r.gen_range(1..3)).collect();
            let rhs = (w.iter().sum::<i64>() - 1).max(0);
            m.cons.push((Con::BoolLe(w, lits, rhs), Reif::Plain));
        } else {
            m.cons.push((Con::Clause(lits), Reif::Plain));
        }
    }
    // an integer that counts some of the 0-1 variables: the objective of the optimisation runs
    let mut lits: Vec<Lit> = vec![];
    for &y in &ys {
        if r.gen_bool(0.7) {
            lits.push((y, r.gen_bool(0.7)));
        }
    }
    for _ in 0..2 {
        lits.push((planted[r.gen_range(0..planted.len())], r.gen_bool(0.5)));
    }
    let w: Vec<i64> = lits.iter().map(|_| r.gen_range(1..=2)).collect();
    m.vars.push(Var { dom: (0..=w.iter().sum::<i64>()).collect(), kind: VarKind::Interval });
    let z = m.vars.len() - 1;
    m.cons.push((Con::BoolEq(w, lits, z), Reif::Plain));
    m
}

/// C17: cumulative with several disjoint compulsory parts ("profiles") built from (nearly) fixed
/// tasks and one or two wide tasks that fit beside none of them, so that a single propagation pass
/// cuts the wide task at several profiles (holes or bound jumps across profiles).
pub fn gen_cumul_profiles(r: &mut SmallRng) -> Model {
    let mut m = Model::default();
    let cap: i64 = r.gen_range(1..=3);
    let nprof = r.gen_range(2..=3);
    let mut starts: Vec<View> = vec![];
    let mut durs: Vec<i64> = vec![];
    let mut reqs: Vec<i64> = vec![];
    let mut t = r.gen_range(0..3i64);
    for _ in 0..nprof {
        let len = r.gen_range(1..=2i64);
        let mut left = cap;
        let ntask = r.gen_range(1..=2);
        for k in 0..ntask {
            let use_ = if k + 1 == ntask { left.max(1).min(cap) } else { r.gen_range(1..=left.max(1)) };
            left -= use_;
            // fixed, or with slack smaller than the duration (a compulsory part remains)
            let slack = if len > 1 && r.gen_range(0..3) == 0 { 1 } else { 0 };
            m.vars.push(Var { dom: (t..=t + slack).collect(), kind: VarKind::Interval });
            starts.push(View::plain(m.vars.len() - 1));
            durs.push(len + slack);
            reqs.push(use_);
            if left <= 0 {
                break;
            }
        }
        t += len + 1 + r.gen_range(1..=3i64);
    }
    let horizon = t + r.gen_range(0..3);
    for _ in 0..r.gen_range(1..=2) {
        m.vars.push(Var { dom: (0..=horizon).collect(), kind: VarKind::Interval });
        starts.push(View::plain(m.vars.len() - 1));
        durs.push(r.gen_range(1..=2));
        reqs.push(r.gen_range(1..=cap));
    }
    // option tuple: bias towards holes + sequence generation
    let mut o = r.gen_range(0..144usize);
    if r.gen_bool(0.6) {
        o |= 1; // allow holes
    }
    if r.gen_bool(0.6) && (o / 6) & 1 == 0 {
        o += 6; // generate sequences
    }
    m.cons.push((Con::Cumul(starts, durs, reqs, cap, o % 144), Reif::Plain));
    m.vars.push(Var { dom: vec![0, 1], kind: VarKind::Bool });
    for _ in 0..r.gen_range(0..3) {
        let k = ["bin_le", "bin_lt", "lin_le", "bin_ne", "lin_ne"][r.gen_range(0..5)];
        if let Some(c) = gen_con(r, &m, k, false) {
            m.cons.push((c, Reif::Plain));
        }
    }
    m
}

pub fn gen_hard_bounded(r: &mut SmallRng, max_space: f64) -> Model {
    let mut p = Profile::mixed();
    p.nint = (3, 6);
    p.nbool = (0, 2);
    p.ncons = (3, 8);
    p.width = 4;
    p.max_space = max_space;
    match r.gen_range(0..4) {
        0 => {
            // pigeonhole-like: all different over a tight range plus linear side constraints
            p.kinds = vec![("all_different", 3), ("lin_le", 2), ("lin_eq", 2), ("lin_ne", 2), ("bin_lt", 1)];
            p.sparse_p = 0.1;
        }
        1 => {
            // parity-like over 0-1 variables
            p.nint = (1, 2);
            p.nbool = (4, 8);
            p.kinds = vec![("clause", 4), ("bool_lin_le", 2), ("bool_lin_eq", 2), ("lin_eq", 2), ("lin_ne", 1)];
            p.ncons = (5, 12);
        }
        2 => {
            p.kinds = vec![("cumulativec", 3), ("bin_le", 2), ("bin_lt", 2), ("lin_le", 2), ("lin_eq", 1)];
            p.lo = (0, 2);
        }
        _ => {}
    }
    gen_model(r, &p)
}

/// C16 family (a): small support, large magnitude. Domains of <= 3 values placed near powers of two
/// up to the 32-bit limits, large coefficients / offsets / right-hand sides.
pub fn gen_big(r: &mut SmallRng, kind: &str, extreme: bool) -> Model {
    const LIM: i64 = (1 << 31) - 1;
    loop {
        let nv = r.gen_range(2..=4);
        let mut m = Model::default();
        // `extreme`: constants up to the 32-bit limits themselves; otherwise all constants stay below
        // 2^30 in magnitude (sums and products of a few of them still leave the 32-bit range)
        let bases: [i64; 12] = if extreme {
            [0, 1, 1 << 15, -(1 << 15), 1 << 16, 46340, 46341, 1 << 30, -(1 << 30), LIM - 3, -LIM + 1, 3]
        } else {
            [0, 1, 1 << 15, -(1 << 15), 1 << 16, 46340, 46341, 1 << 20, -(1 << 24), (1 << 29) + 5, -(1 << 29), 3]
        };
        for _ in 0..nv {
            let lo = (bases[r.gen_range(0..bases.len())] + r.gen_range(-1..2)).clamp(-LIM, LIM);
            let hi = (lo + r.gen_range(0..3)).min(LIM);
            m.vars.push(Var { dom: (lo..=hi).collect(), kind: VarKind::Interval });
        }
        if r.gen_bool(0.3) {
            m.vars.push(Var { dom: vec![0, 1], kind: VarKind::Bool });
        }
        let scales: [i64; 9] = [1, 1, 1, -1, 2, -3, 1000, 32768, 65536];
        let offs: [i64; 6] = if extreme { [0, 0, 0, 3, 1 << 16, -(1 << 30)] } else { [0, 0, 0, 3, 1 << 16, -(1 << 28)] };
        let fits = |v: &View, m: &Model| {
            let d = &m.vars[v.var];
            let a = v.s as i128 * d.lo() as i128 + v.o as i128;
            let b = v.s as i128 * d.hi() as i128 + v.o as i128;
            // the view itself must stay inside the 32-bit range the API admits
            a.abs() <= LIM as i128 && b.abs() <= LIM as i128 && (v.s as i128 * d.lo() as i128).abs() <= LIM as i128 && (v.s as i128 * d.hi() as i128).abs() <= LIM as i128
        };
        let mut vw = |r: &mut SmallRng, m: &Model| -> View {
            for _ in 0..20 {
                let var = r.gen_range(0..m.vars.len());
                if m.vars[var].kind == VarKind::Bool && r.gen_bool(0.7) {
                    continue;
                }
                let v = View { var, s: scales[r.gen_range(0..scales.len())] * if r.gen_bool(0.2) { -1 } else { 1 }, o: offs[r.gen_range(0..offs.len())] };
                if fits(&v, m) {
                    return v;
                }
            }
            View::plain(0)
        };
        let rhs_c: [i64; 8] = if extreme {
            [0, 5, 1 << 16, 1 << 30, -(1 << 30), LIM, -LIM, 2_000_000_000]
        } else {
            [0, 5, 1 << 16, 1 << 29, -(1 << 29), (1 << 30) - 7, -(1 << 30) + 9, 1_000_000_000]
        };
        let rhs = (rhs_c[r.gen_range(0..rhs_c.len())] + r.gen_range(-2..3)).clamp(-LIM, LIM);
        let n = r.gen_range(1..=3);
        let c = match kind {
            "lin_le" => Con::LinLe((0..n).map(|_| vw(r, &m)).collect(), rhs),
            "lin_eq" => Con::LinEq((0..n).map(|_| vw(r, &m)).collect(), rhs),
            "lin_ne" => Con::LinNe((0..n).map(|_| vw(r, &m)).collect(), rhs),
            "plus" => Con::Plus(vw(r, &m), vw(r, &m), vw(r, &m)),
            "times" => Con::Times(vw(r, &m), vw(r, &m), vw(r, &m)),
            "div" => {
                let d = vw(r, &m);
                if m.vars[d.var].dom.iter().any(|x| d.s * x + d.o == 0) {
                    continue;
                }
                Con::Div(vw(r, &m), d, vw(r, &m))
            }
            "abs" => Con::Abs(vw(r, &m), vw(r, &m)),
            "max" => Con::Max((0..n).map(|_| vw(r, &m)).collect(), vw(r, &m)),
            "min" => Con::Min((0..n).map(|_| vw(r, &m)).collect(), vw(r, &m)),
            "element" => {
                // index variable with a small non-negative domain, pairwise distinct variables
                m.vars.push(Var { dom: (0..=r.gen_range(0..3)).collect(), kind: VarKind::Interval });
                let iv = m.vars.len() - 1;
                let mut pick: Vec<usize> = (0..iv).filter(|&i| m.vars[i].kind != VarKind::Bool).collect();
                shuffle(r, &mut pick);
                if pick.len() < 2 {
                    continue;
                }
                let na = (pick.len() - 1).min(3);
                Con::Elem(View::plain(iv), pick[1..=na].iter().map(|&v| View::plain(v)).collect(), View::plain(pick[0]))
            }
            "bin_le" => Con::BinLe(vw(r, &m), vw(r, &m)),
            "bin_ne" => Con::BinNe(vw(r, &m), vw(r, &m)),
            k => panic!("harness: no large-magnitude generator for {k}"),
        };
        // A third of the linear constraints get a right-hand side derived from the exact (i128) value of
        // the left-hand side at a random assignment: that value itself when it is admissible (a tight
        // constraint), otherwise the value it wraps to modulo 2^32 – the constant a 32-bit computation of
        // the sum would confuse with the true one.
        let c = match c {
            Con::LinLe(vs, _) | Con::LinEq(vs, _) | Con::LinNe(vs, _) if r.gen_range(0..3) == 0 => {
                let a: Vec<i64> = m.vars.iter().map(|d| d.dom[r.gen_range(0..d.dom.len())]).collect();
                let exact: i128 = vs.iter().map(|v| v.val(&a)).sum::<i128>() + r.gen_range(-1..2) as i128;
                let wrapped = (exact + (1i128 << 31)).rem_euclid(1i128 << 32) - (1i128 << 31);
                let rhs = (wrapped as i64).clamp(-LIM, LIM);
                match kind {
                    "lin_le" => Con::LinLe(vs, rhs),
                    "lin_eq" => Con::LinEq(vs, rhs),
                    _ => Con::LinNe(vs, rhs),
                }
            }
            c => c,
        };
        let reif = if r.gen_range(0..5) == 0 { gen_reif(r, &m, &c, 1.0) } else { Reif::Plain };
        m.cons.push((c, reif));
        if r.gen_bool(0.3) {
            let v = vw(r, &m);
            m.cons.push((Con::LinNe(vec![v], rhs), Reif::Plain));
        }
        if m.space() <= 5_000.0 {
            return m;
        }
    }
}
