//! Judges over the hook event stream (learned nogoods, explanations, decisions).
use std::collections::BTreeSet;
use std::collections::HashMap;

use pumpkin_solver::predicates::Predicate;
use pumpkin_solver::verif::Event;

use crate::core::Outcome;
use crate::drive::const_pred;
use crate::drive::to_mpred;
use crate::model::*;

pub struct Stats {
    pub propagations: u64,
    pub conflicts: u64,
    pub learned: u64,
    pub decisions: u64,
    pub restarts: u64,
    pub analysis_reasons: u64,
    pub nonroot_propagations: u64,
}

pub fn stats(ev: &[Event]) -> Stats {
    let mut s = Stats { propagations: 0, conflicts: 0, learned: 0, decisions: 0, restarts: 0, analysis_reasons: 0, nonroot_propagations: 0 };
    for e in ev {
        match e {
            Event::Propagation { decision_level, .. } => {
                s.propagations += 1;
                if *decision_level > 0 {
                    s.nonroot_propagations += 1;
                }
            }
            Event::Conflict { .. } => s.conflicts += 1,
            Event::Learned { .. } => s.learned += 1,
            Event::Decision { .. } => s.decisions += 1,
            Event::Restart => s.restarts += 1,
            Event::AnalysisReason { .. } => s.analysis_reasons += 1,
            Event::NoDecision { .. } => {}
        }
    }
    s
}

pub fn add_stats(out: &mut Outcome, ev: &[Event]) {
    let s = stats(ev);
    out.count("ev.propagations", s.propagations);
    out.count("ev.nonroot_propagations", s.nonroot_propagations);
    out.count("ev.conflicts", s.conflicts);
    out.count("ev.learned", s.learned);
    out.count("ev.decisions", s.decisions);
    out.count("ev.restarts", s.restarts);
    out.count("ev.analysis_reasons", s.analysis_reasons);
}

/// Translate a list of solver predicates. `Ok(None)`: some predicate is constantly false (the
/// conjunction can never hold). Constantly-true predicates are dropped. `Err`: unknown variable.
pub fn translate(ps: &[Predicate], map: &HashMap<u32, usize>) -> Result<Option<Vec<MPred>>, String> {
    let mut out = vec![];
    for p in ps {
        if let Some(b) = const_pred(p) {
            if !b {
                return Ok(None);
            }
            continue;
        }
        match to_mpred(p, map) {
            Some(mp) => out.push(mp),
            None => return Err(format!("predicate {p:?} is over a variable the model did not create")),
        }
    }
    Ok(Some(out))
}

pub fn show_preds(ps: &[MPred]) -> String {
    ps.iter().map(|p| p.show()).collect::<Vec<_>>().join(" & ")
}

/// Every learned nogood must be implied by the model: no solution in `sols` satisfies all of its
/// predicates. Returns the number of nogoods checked.
pub fn check_learned(out: &mut Outcome, ev: &[Event], sols: &BTreeSet<Vec<i64>>, map: &HashMap<u32, usize>) -> u64 {
    let mut n = 0;
    for e in ev {
        if let Event::Learned { nogood, .. } = e {
            n += 1;
            match translate(nogood, map) {
                Err(e) => out.notes.push(format!("learned nogood not checked: {e}")),
                Ok(None) => {}
                Ok(Some(ps)) => {
                    if let Some(s) = sols.iter().find(|a| ps.iter().all(|p| p.holds(a)))
                    {
                        out.fail(
                            "learned-nogood-not-implied",
                            format!("learned nogood {} excludes the solution {:?}", show_preds(&ps), s),
                        );
                        return n;
                    }
                }
            }
        }
    }
    out.count("learned_nogoods_checked", n);
    n
}

/// Cached tuple tables for the explanation judge.
pub struct Tables<'a> {
    pub model: &'a Model,
    tables: HashMap<usize, Option<(Vec<usize>, Vec<Vec<i64>>)>>,
    pub cap: usize,
}

impl<'a> Tables<'a> {
    pub fn new(model: &'a Model, cap: usize) -> Tables<'a> {
        Tables { model, tables: HashMap::new(), cap }
    }
    /// Is there an assignment satisfying constraint `ci`, all `premises`, and falsifying `concl`
    /// (or, with `concl == None`, simply satisfying everything)? Returns the counterexample.
    /// `None` result wrapped in Err means "could not be checked (scope too large)".
    pub fn counterexample(&mut self, ci: usize, premises: &[MPred], concl: Option<&MPred>) -> Result<Option<Vec<i64>>, ()> {
        let model = self.model;
        let cap = self.cap;
        let t = self.tables.entry(ci).or_insert_with(|| model.tuple_table(ci, cap));
        let Some((scope, tuples)) = t else { return Err(()) };
        // variables mentioned outside the scope range over their declared domains
        let mut extra: Vec<usize> = premises.iter().chain(concl).map(|p| p.var).filter(|v| !scope.contains(v)).collect();
        extra.sort();
        extra.dedup();
        let extra_prod: f64 = extra.iter().map(|&v| model.vars[v].dom.len() as f64).product();
        if extra_prod * tuples.len() as f64 > 2e6 {
            return Err(());
        }
        for tup in tuples.iter() {
            let mut a = tup.clone();
            let mut idx = vec![0usize; extra.len()];
            loop {
                for (k, &v) in extra.iter().enumerate() {
                    a[v] = model.vars[v].dom[idx[k]];
                }
                if premises.iter().all(|p| p.holds(&a)) && concl.map_or(true, |c| !c.holds(&a)) {
                    return Ok(Some(a));
                }
                let mut k = 0;
                loop {
                    if k == extra.len() {
                        break;
                    }
                    idx[k] += 1;
                    if idx[k] < model.vars[extra[k]].dom.len() {
                        break;
                    }
                    idx[k] = 0;
                    k += 1;
                }
                if k == extra.len() {
                    break;
                }
            }
        }
        Ok(None)
    }
}

pub struct ReasonCheckCfg<'a> {
    /// solution set of the whole model, used for untagged (nogood propagator / clause) events
    pub sols: Option<&'a BTreeSet<Vec<i64>>>,
    pub max_events: usize,
}

/// C17 judge: sufficiency and truth of every materialised reason.
pub fn check_reasons(out: &mut Outcome, tables: &mut Tables, ev: &[Event], map: &HashMap<u32, usize>, cfg: &ReasonCheckCfg) {
    let model = tables.model;
    let mut checked = 0usize;
    for e in ev {
        if checked >= cfg.max_events || out.failed() {
            break;
        }
        match e {
            Event::Propagation { tag, name, predicate, reason, reason_held_before, lazy, propagator, decision_level, .. } => {
                let key = format!("{}/{}/at-propagation", name, if *lazy { "lazy" } else { "eager" });
                let (Ok(Some(rs)), Some(pp)) = (translate(reason, map), to_mpred(predicate, map)) else {
                    out.count("reasons_unchecked.untranslatable", 1);
                    continue;
                };
                // (ii) truth, eager reasons: every reason predicate held just before the entry
                if !*lazy {
                    if let Some(k) = reason_held_before.iter().position(|b| !*b) {
                        out.fail(
                            "reason-not-true",
                            format!(
                                "{name} (tag {tag:?}) propagated {} at level {decision_level} with reason {} but {:?} did not hold before the propagation",
                                pp.show(),
                                show_preds(&rs),
                                reason[k]
                            ),
                        );
                        break;
                    }
                }
                match tag {
                    Some(t) => {
                        let ci = *t as usize - 1;
                        match tables.counterexample(ci, &rs, Some(&pp)) {
                            Err(()) => out.count("reasons_unchecked.scope_too_large", 1),
                            Ok(None) => {
                                checked += 1;
                                out.count("reasons_checked", 1);
                                out.cover(key);
                            }
                            Ok(Some(a)) => {
                                out.fail(
                                    "reason-insufficient",
                                    format!(
                                        "{name} (constraint #{ci} {}) propagated {} with reason {}; the assignment {:?} satisfies the constraint and the reason but not the propagated fact",
                                        model.cons[ci].0.kind(),
                                        pp.show(),
                                        show_preds(&rs),
                                        a
                                    ),
                                );
                            }
                        }
                    }
                    None => {
                        if let (Some(sols), true) = (cfg.sols, *propagator == 0) {
                            checked += 1;
                            out.count("reasons_checked", 1);
                            out.cover(key);
                            if let Some(a) = sols.iter().find(|a| rs.iter().all(|p| p.holds(a)) && !pp.holds(a)) {
                                out.fail(
                                    "reason-insufficient",
                                    format!(
                                        "{name} propagated {} with reason {}; the solution {:?} of the model satisfies the reason but not the propagated fact",
                                        pp.show(),
                                        show_preds(&rs),
                                        a
                                    ),
                                );
                            }
                        } else {
                            out.count("reasons_unchecked.untagged", 1);
                        }
                    }
                }
            }
            Event::Conflict { tag, name, nogood, holds, propagator, .. } => {
                let key = format!("{}/conflict", name);
                let tr = translate(nogood, map);
                let Ok(tr) = tr else {
                    out.count("reasons_unchecked.untranslatable", 1);
                    continue;
                };
                if let Some(k) = holds.iter().position(|b| !*b) {
                    out.fail(
                        "conflict-reason-not-true",
                        format!("{name} (tag {tag:?}) reported the conflict {nogood:?} but {:?} does not hold", nogood[k]),
                    );
                    break;
                }
                let Some(ps) = tr else { continue };
                match tag {
                    Some(t) => {
                        let ci = *t as usize - 1;
                        match tables.counterexample(ci, &ps, None) {
                            Err(()) => out.count("reasons_unchecked.scope_too_large", 1),
                            Ok(None) => {
                                checked += 1;
                                out.count("reasons_checked", 1);
                                out.cover(key);
                            }
                            Ok(Some(a)) => out.fail(
                                "conflict-reason-insufficient",
                                format!(
                                    "{name} (constraint #{ci} {}) reported the conflict {}; the assignment {:?} satisfies the constraint and all of these facts",
                                    model.cons[ci].0.kind(),
                                    show_preds(&ps),
                                    a
                                ),
                            ),
                        }
                    }
                    None => {
                        if let (Some(sols), true) = (cfg.sols, *propagator == 0) {
                            checked += 1;
                            out.count("reasons_checked", 1);
                            out.cover(key);
                            if let Some(a) = sols.iter().find(|a| ps.iter().all(|p| p.holds(a))) {
                                out.fail(
                                    "conflict-reason-insufficient",
                                    format!("{name} reported the conflict {}; the solution {:?} satisfies all of these facts", show_preds(&ps), a),
                                );
                            }
                        } else {
                            out.count("reasons_unchecked.untagged", 1);
                        }
                    }
                }
            }
            Event::AnalysisReason { explicit, tag, name, predicate, reason, holds_now, predicate_position, reason_positions, propagator } => {
                let (Ok(Some(rs)), Some(pp)) = (translate(reason, map), to_mpred(predicate, map)) else {
                    out.count("reasons_unchecked.untranslatable", 1);
                    continue;
                };
                if let Some(k) = holds_now.iter().position(|b| !*b) {
                    out.fail(
                        "analysis-reason-not-true",
                        format!(
                            "reason given during conflict analysis for {} ({}) is {} but {:?} does not hold in that state",
                            pp.show(),
                            if *explicit { name.as_str() } else { "implied predicate" },
                            show_preds(&rs),
                            reason[k]
                        ),
                    );
                    break;
                }
                if reason_positions.iter().any(|p| p.is_some_and(|p| p >= *predicate_position)) {
                    out.count("diag.reason_cites_later_fact", 1);
                }
                if *explicit {
                    let key = format!("{}/at-analysis", name);
                    match tag {
                        Some(t) => {
                            let ci = *t as usize - 1;
                            match tables.counterexample(ci, &rs, Some(&pp)) {
                                Err(()) => out.count("reasons_unchecked.scope_too_large", 1),
                                Ok(None) => {
                                    checked += 1;
                                    out.count("reasons_checked", 1);
                                    out.cover(key);
                                }
                                Ok(Some(a)) => out.fail(
                                    "analysis-reason-insufficient",
                                    format!(
                                        "{name} (constraint #{ci} {}) explained {} during analysis with {}; the assignment {:?} satisfies the constraint and the reason but not the fact",
                                        model.cons[ci].0.kind(),
                                        pp.show(),
                                        show_preds(&rs),
                                        a
                                    ),
                                ),
                            }
                        }
                        None => {
                            if let (Some(sols), Some(0)) = (cfg.sols, propagator) {
                                checked += 1;
                                out.count("reasons_checked", 1);
                                out.cover(key);
                                if let Some(a) = sols.iter().find(|a| rs.iter().all(|p| p.holds(a)) && !pp.holds(a)) {
                                    out.fail(
                                        "analysis-reason-insufficient",
                                        format!(
                                            "{name} explained {} during analysis with {}; the solution {:?} satisfies the reason but not the fact",
                                            pp.show(),
                                            show_preds(&rs),
                                            a
                                        ),
                                    );
                                }
                            } else {
                                out.count("reasons_unchecked.untagged", 1);
                            }
                        }
                    }
                } else {
                    // implied-predicate decomposition: must follow from the declared domain alone
                    checked += 1;
                    out.count("reasons_checked", 1);
                    out.cover("implied-predicate/at-analysis");
                    let dom = &model.vars[pp.var].dom;
                    if rs.iter().any(|p| p.var != pp.var) {
                        out.fail(
                            "analysis-reason-insufficient",
                            format!("implied-predicate reason for {} mentions another variable: {}", pp.show(), show_preds(&rs)),
                        );
                    } else if let Some(x) = dom.iter().find(|x| rs.iter().all(|p| p.holds_val(**x)) && !pp.holds_val(**x)) {
                        out.fail(
                            "analysis-reason-insufficient",
                            format!(
                                "implied-predicate reason {} does not imply {}: value {} of the declared domain satisfies the reason only",
                                show_preds(&rs),
                                pp.show(),
                                x
                            ),
                        );
                    }
                }
            }
            _ => {}
        }
    }
}

/// C18 judge over `Decision` / `NoDecision` events. `vars`: domain ids the brancher is responsible
/// for (all model variables in our workloads).
pub fn check_decisions(out: &mut Outcome, ev: &[Event], map: &HashMap<u32, usize>) {
    for e in ev {
        match e {
            Event::Decision { predicate, truth_before, decision_level } => {
                out.count("decisions_checked", 1);
                if let Some(b) = truth_before {
                    out.fail(
                        "decision-already-decided",
                        format!("brancher proposed {predicate:?} at level {decision_level} although it was already {b}"),
                    );
                    return;
                }
                if !map.contains_key(&predicate.get_domain().id) {
                    out.fail("decision-foreign-variable", format!("brancher proposed {predicate:?} over a variable it was not given"));
                    return;
                }
            }
            Event::NoDecision { unfixed } => {
                out.count("no_decision_checked", 1);
                let mine: Vec<u32> = unfixed.iter().map(|d| d.id).filter(|d| map.contains_key(d)).collect();
                if !mine.is_empty() {
                    out.fail(
                        "no-decision-with-unfixed-variables",
                        format!("brancher proposed no decision while variables {:?} are unfixed", mine.iter().map(|d| format!("x{}", map[d])).collect::<Vec<_>>()),
                    );
                    return;
                }
            }
            _ => {}
        }
    }
}
