//! C01, C02, C03, C04, C05, C12: solution-level properties judged against the enumerator.
use std::cell::RefCell;
use std::collections::BTreeSet;

use pumpkin_solver::optimisation::linear_sat_unsat::LinearSatUnsat;
use pumpkin_solver::optimisation::linear_unsat_sat::LinearUnsatSat;
use pumpkin_solver::optimisation::OptimisationDirection;
use pumpkin_solver::results::solution_iterator::IteratedSolution;
use pumpkin_solver::results::OptimisationResult;
use pumpkin_solver::results::SatisfactionResult;
use pumpkin_solver::results::SatisfactionResultUnderAssumptions as SRA;
use pumpkin_solver::results::SolutionReference;
use pumpkin_solver::Solver;
use rand::rngs::SmallRng;
use rand::Rng;
use rand::SeedableRng;

use crate::core::*;
use crate::drive::*;
use crate::events;
use crate::gen;
use crate::json::Json;
use crate::model::*;

pub struct Config {
    pub opts: OptSpec,
    pub br: BrSpec,
}

impl Config {
    pub fn random(r: &mut SmallRng) -> Config {
        let seed = r.gen();
        let opts = if r.gen_bool(0.4) { OptSpec::default_with_seed(seed) } else { OptSpec::random(r, seed) };
        Config { opts, br: BrSpec::random(r) }
    }
    /// Random configuration outside the option tuples on which bounded progress is not guaranteed
    /// (see `OptSpec::class_thrash`): used by the properties whose subject is not termination.
    pub fn random_progressing(r: &mut SmallRng) -> Config {
        let mut c = Config::random(r);
        if c.opts.class_thrash() {
            if c.opts.no_learning {
                c.opts.no_restarts = true;
            } else {
                c.opts.nogood_limit = 4000;
            }
        }
        c
    }
    /// As `random_progressing`, and with learning on (the no-learning resolver does not support
    /// assumptions: it flips them like decisions).
    pub fn random_for_assumptions(r: &mut SmallRng) -> Config {
        let mut c = Config::random_progressing(r);
        c.opts.no_learning = false;
        c
    }
    pub fn default(seed: u64) -> Config {
        Config { opts: OptSpec::default_with_seed(seed), br: BrSpec::Default }
    }
    pub fn to_json(&self) -> Json {
        Json::obj([("options", self.opts.to_json()), ("brancher", Json::str(self.br.desc()))])
    }
    pub fn label(&self, out: &mut Outcome) {
        if self.opts.class_thrash() {
            out.class("opt.thrash");
        }
        if self.opts.no_learning {
            out.class("opt.no_learning");
        }
        match &self.br {
            BrSpec::Default => out.class("brancher.default"),
            b => {
                for v in VAR_SELECTORS.iter().chain(VAL_SELECTORS.iter()) {
                    let v = v.split('(').next().unwrap();
                    if b.desc().contains(&format!("{v},")) || b.desc().contains(&format!(",{v})")) {
                        out.class(format!("brancher.{v}"));
                    }
                }
                out.class(format!("brancher.{}", b.desc().split('(').next().unwrap()));
            }
        }
        out.config = self.to_json();
    }
}

/// Labels that are known before running (used to classify hangs / crashes of a case).
pub fn describe(mode: &str, case: &Case) -> Outcome {
    let mut out = Outcome::new(&case.model);
    let mut r = SmallRng::seed_from_u64(case.sub);
    match mode {
        "c12" | "c08" | "c16" | "c06" | "c19" => {}
        "c07" => {
            // a hang / crash of the case can come from any of its configurations
            let k = case.extra.get("k").as_i64().max(2) as usize;
            if crate::props_b::cfgs_c07(&mut r, k).iter().any(|c| c.opts.class_thrash()) {
                out.class("opt.thrash");
            }
        }
        "c09" => crate::props_b::cfg_c09(&mut r).label(&mut out),
        "c18" => crate::props_b::cfg_c18(case, &mut r).label(&mut out),
        "c02" | "c03" | "c05" => Config::random(&mut r).label(&mut out),
        "c10" => Config::random_for_assumptions(&mut r).label(&mut out),
        _ => Config::random_progressing(&mut r).label(&mut out),
    }
    out
}

pub fn nontrivial(out: &mut Outcome, ev: &[pumpkin_solver::verif::Event], nsols: usize) {
    let s = events::stats(ev);
    out.nontrivial = s.conflicts >= 1 || nsols >= 2 || s.nonroot_propagations >= 1;
    events::add_stats(out, ev);
}

/// Post-time infeasibility must be justified by the prefix model.
pub fn check_post_err(out: &mut Outcome, m: &Model, b: &Built) -> bool {
    if let Some(i) = b.post_err {
        out.count("post_errors", 1);
        if !m.enumerate_prefix(i + 1).is_empty() {
            out.fail(
                "post-infeasible-but-satisfiable",
                format!("posting constraint #{i} ({}) returned an infeasibility error but the model up to it has solutions", m.cons[i].0.kind()),
            );
        }
        return true;
    }
    false
}

// ---------------------------------------------------------------------------------------------
// C03

pub fn run_c03(case: &Case) -> Outcome {
    let m = &case.model;
    let mut out = Outcome::new(m);
    let mut r = SmallRng::seed_from_u64(case.sub);
    let cfg = Config::random(&mut r);
    cfg.label(&mut out);
    let expected = m.enumerate();
    if expected.len() > 1500 {
        out.skip = Some("more than 1500 solutions".into());
        return out;
    }
    let split_at: Option<usize> = if r.gen_bool(0.35) && expected.len() >= 2 { Some(r.gen_range(1..expected.len())) } else { None };
    pumpkin_solver::verif::enable();
    let res = guard(|| {
        let mut out = Outcome::default();
        let mut b = build(m, cfg.opts.to_options(), m.cons.len(), false, false);
        if check_post_err(&mut out, m, &b) {
            return out;
        }
        let mut brancher = make_brancher(&cfg.br, &b.solver, &b.xs);
        let mut t = Budget::for_iteration(m, &cfg.opts);
        let mut yielded: Vec<Vec<i64>> = vec![];
        // first (possibly partial) iteration
        let mut finished = false;
        let mut reoffer: Option<Vec<i64>> = None;
        {
            let mut it = b.solver.get_solution_iterator(&mut brancher, &mut t);
            loop {
                if split_at == Some(yielded.len()) {
                    // drop the iterator here: the last yielded solution has not been blocked yet
                    reoffer = yielded.last().cloned();
                    break;
                }
                match it.next_solution() {
                    IteratedSolution::Solution(sol, _, _) => match read_solution(&sol, &b.xs) {
                        Ok(a) => yielded.push(a),
                        Err(e) => {
                            out.fail("partial-solution", e);
                            return out;
                        }
                    },
                    IteratedSolution::Finished => {
                        finished = true;
                        if yielded.is_empty() {
                            out.fail("finished-without-solution", "iterator reported Finished before yielding any solution");
                            return out;
                        }
                        break;
                    }
                    IteratedSolution::Unsatisfiable => {
                        finished = true;
                        if !yielded.is_empty() {
                            out.fail("unsatisfiable-after-solutions", "iterator reported Unsatisfiable after yielding solutions");
                            return out;
                        }
                        break;
                    }
                    IteratedSolution::Unknown => {
                        out.fail("budget-exhausted", format!("no answer within {} polls", t_polls(&yielded)));
                        return out;
                    }
                }
            }
        }
        let mut second: Vec<Vec<i64>> = vec![];
        if !finished {
            out.count("restarted_iterations", 1);
            // second iteration with a fresh brancher on the same solver
            let mut brancher2 = make_brancher(&cfg.br, &b.solver, &b.xs);
            let mut t2 = Budget::for_iteration(m, &cfg.opts);
            let mut it = b.solver.get_solution_iterator(&mut brancher2, &mut t2);
            loop {
                match it.next_solution() {
                    IteratedSolution::Solution(sol, _, _) => match read_solution(&sol, &b.xs) {
                        Ok(a) => second.push(a),
                        Err(e) => {
                            out.fail("partial-solution", e);
                            return out;
                        }
                    },
                    IteratedSolution::Finished | IteratedSolution::Unsatisfiable => break,
                    IteratedSolution::Unknown => {
                        out.fail("budget-exhausted", "no answer within the poll budget (second iteration)");
                        return out;
                    }
                }
            }
        }
        // judge
        let mut seen: BTreeSet<Vec<i64>> = BTreeSet::new();
        for a in &yielded {
            if !m.satisfies(a) {
                out.fail("non-solution-yielded", format!("{a:?}: {}", m.why_not(a)));
                return out;
            }
            if !seen.insert(a.clone()) {
                out.fail("duplicate-solution", format!("{a:?} yielded twice"));
                return out;
            }
        }
        let mut seen2: BTreeSet<Vec<i64>> = BTreeSet::new();
        for a in &second {
            if !m.satisfies(a) {
                out.fail("non-solution-yielded", format!("{a:?}: {} (second iteration)", m.why_not(a)));
                return out;
            }
            if !seen2.insert(a.clone()) {
                out.fail("duplicate-solution", format!("{a:?} yielded twice (second iteration)"));
                return out;
            }
            // only the solution that was yielded last by the dropped iterator may come again
            if seen.contains(a) && reoffer.as_ref() != Some(a) {
                out.fail("duplicate-solution", format!("{a:?} was yielded by the first iterator and blocked, but came again"));
                return out;
            }
        }
        let all: BTreeSet<Vec<i64>> = seen.union(&seen2).cloned().collect();
        if let Some(a) = expected.difference(&all).next() {
            out.fail("solution-missing", format!("{a:?} is a solution but was never yielded ({} of {} found)", all.len(), expected.len()));
        }
        out.count("solutions_yielded", all.len() as u64);
        out
    });
    let ev = pumpkin_solver::verif::drain();
    pumpkin_solver::verif::disable();
    merge(&mut out, res);
    nontrivial(&mut out, &ev, expected.len());
    out
}

fn t_polls(_y: &[Vec<i64>]) -> String {
    "the budgeted number of".into()
}

pub fn merge(out: &mut Outcome, res: Result<Outcome, String>) {
    match res {
        Ok(o) => {
            if out.fail.is_none() {
                out.fail = o.fail;
            }
            if o.skip.is_some() {
                out.skip = o.skip;
            }
            for (k, v) in o.counters {
                out.count(&k, v);
            }
            out.cover.extend(o.cover);
            out.notes.extend(o.notes);
            for c in o.classes {
                out.class(c);
            }
        }
        Err(p) => out.fail("panic", p),
    }
}

// ---------------------------------------------------------------------------------------------
// C01: every handed-out solution satisfies the model, over all result paths

fn gen_assumptions(r: &mut SmallRng, m: &Model, n: usize, in_domain_only: bool) -> Vec<MPred> {
    (0..n)
        .map(|_| {
            let var = r.gen_range(0..m.vars.len());
            let d = &m.vars[var];
            let (lo, hi) = if in_domain_only { (d.lo(), d.hi()) } else { (d.lo() - 1, d.hi() + 1) };
            MPred { var, k: [PK::Ge, PK::Le, PK::Eq, PK::Ne][r.gen_range(0..4)], v: r.gen_range(lo..=hi) }
        })
        .collect()
}

pub fn check_solution(out: &mut Outcome, m: &Model, a: &Result<Vec<i64>, String>, path: &str) -> bool {
    out.count("solutions_checked", 1);
    out.cover(format!("path:{path}"));
    match a {
        Err(e) => {
            out.fail("partial-solution", format!("{path}: {e}"));
            false
        }
        Ok(a) => {
            if !m.satisfies(a) {
                out.fail("solution-violates-model", format!("{path}: {a:?}: {}", m.why_not(a)));
                false
            } else {
                true
            }
        }
    }
}

pub fn run_c01(case: &Case) -> Outcome {
    let m = &case.model;
    let mut out = Outcome::new(m);
    let mut r = SmallRng::seed_from_u64(case.sub);
    let cfg = Config::random_for_assumptions(&mut r);
    cfg.label(&mut out);
    let path = r.gen_range(0..5);
    let nass = r.gen_range(1..4);
    let ass = gen_assumptions(&mut r, m, nass, true);
    let obj = gen::gen_view(&mut r, m, false, true);
    let maximise = r.gen_bool(0.5);
    let niter = r.gen_range(1..8);
    pumpkin_solver::verif::enable();
    let res = guard(|| {
        let mut out = Outcome::default();
        let mut b = build(m, cfg.opts.to_options(), m.cons.len(), false, false);
        if b.post_err.is_some() {
            out.skip = Some("infeasible at post time".into());
            return out;
        }
        let mut brancher = make_brancher(&cfg.br, &b.solver, &b.xs);
        let mut t = Budget::for_model(m);
        match path {
            0 => {
                if let SatisfactionResult::Satisfiable(sol) = b.solver.satisfy(&mut brancher, &mut t) {
                    let _ = check_solution(&mut out, m, &read_solution(&sol, &b.xs), "satisfy");
                }
            }
            1 => {
                let mut it = b.solver.get_solution_iterator(&mut brancher, &mut t);
                for _ in 0..niter {
                    match it.next_solution() {
                        IteratedSolution::Solution(sol, _, _) => {
                            if !check_solution(&mut out, m, &read_solution(&sol, &b.xs), "iterator") {
                                break;
                            }
                        }
                        _ => break,
                    }
                }
            }
            2 => {
                let preds: Vec<_> = ass.iter().map(|p| from_mpred(p, &b.xs)).collect();
                if let SRA::Satisfiable(sol) = b.solver.satisfy_under_assumptions(&mut brancher, &mut t, &preds) {
                    let a = read_solution(&sol, &b.xs);
                    if check_solution(&mut out, m, &a, "satisfy_under_assumptions") {
                        let a = a.unwrap();
                        if let Some(p) = ass.iter().find(|p| !p.holds(&a)) {
                            out.fail("solution-violates-assumption", format!("{a:?} violates assumption {}", p.show()));
                        }
                    }
                }
            }
            _ => {
                let dir = if maximise { OptimisationDirection::Maximise } else { OptimisationDirection::Minimise };
                let o = mk_view(&obj, &b.xs);
                let cbs: RefCell<Vec<Result<Vec<i64>, String>>> = RefCell::new(vec![]);
                let xs = b.xs.clone();
                let cb = |_: &Solver, s: SolutionReference, _: &BoxB| cbs.borrow_mut().push(read_solution_ref(s, &xs));
                let res = if path == 3 {
                    b.solver.optimise(&mut brancher, &mut t, LinearSatUnsat::new(dir, o, cb))
                } else {
                    b.solver.optimise(&mut brancher, &mut t, LinearUnsatSat::new(dir, o, cb))
                };
                let p = if path == 3 { "optimise(sat-unsat)" } else { "optimise(unsat-sat)" };
                for a in cbs.borrow().iter() {
                    if !check_solution(&mut out, m, a, &format!("{p} callback")) {
                        return out;
                    }
                }
                match res {
                    OptimisationResult::Optimal(sol) => {
                        let _ = check_solution(&mut out, m, &read_solution(&sol, &b.xs), &format!("{p} Optimal"));
                    }
                    OptimisationResult::Satisfiable(sol) => {
                        let _ = check_solution(&mut out, m, &read_solution(&sol, &b.xs), &format!("{p} Satisfiable"));
                    }
                    _ => {}
                }
            }
        }
        out
    });
    let ev = pumpkin_solver::verif::drain();
    pumpkin_solver::verif::disable();
    merge(&mut out, res);
    let n = out.counters.get("solutions_checked").copied().unwrap_or(0);
    nontrivial(&mut out, &ev, 0);
    out.nontrivial = out.nontrivial && n > 0;
    out
}

// ---------------------------------------------------------------------------------------------
// C02: verdicts, learned nogoods, bounded progress

pub fn run_c02(case: &Case) -> Outcome {
    let m = &case.model;
    let mut out = Outcome::new(m);
    let mut r = SmallRng::seed_from_u64(case.sub);
    let cfg = Config::random(&mut r);
    cfg.label(&mut out);
    let sols = m.enumerate();
    pumpkin_solver::verif::enable();
    let mut map = Default::default();
    let res = guard(|| {
        let mut out = Outcome::default();
        let mut b = build(m, cfg.opts.to_options(), m.cons.len(), false, false);
        map = dom_map(&b.xs);
        if check_post_err(&mut out, m, &b) {
            out.cover("verdict:post-error");
            return out;
        }
        let mut brancher = make_brancher(&cfg.br, &b.solver, &b.xs);
        let mut t = Budget::for_model(m);
        match b.solver.satisfy(&mut brancher, &mut t) {
            SatisfactionResult::Satisfiable(sol) => {
                out.cover("verdict:sat");
                let _ = check_solution(&mut out, m, &read_solution(&sol, &b.xs), "satisfy");
            }
            SatisfactionResult::Unsatisfiable => {
                out.cover("verdict:unsat");
                if let Some(a) = sols.iter().next() {
                    out.fail("unsat-but-satisfiable", format!("satisfy reported Unsatisfiable but {a:?} is a solution ({} solutions)", sols.len()));
                }
            }
            SatisfactionResult::Unknown => {
                out.fail("budget-exhausted", format!("no verdict within {} polls with a termination condition that never fires before", t.polls));
            }
        }
        out.count("polls", t.polls);
        out
    });
    let ev = pumpkin_solver::verif::drain();
    pumpkin_solver::verif::disable();
    merge(&mut out, res);
    if !out.failed() {
        let _ = events::check_learned(&mut out, &ev, &sols, &map);
    }
    nontrivial(&mut out, &ev, 0);
    out.count(if sols.is_empty() { "models_unsat" } else { "models_sat" }, 1);
    out
}

/// Deep-chain models (`gen::gen_deep_chain`): several satisfy calls under configurations that keep
/// learning (and mostly minimisation) on; every learned nogood is judged against the solution set.
pub fn run_c02_deep(case: &Case) -> Outcome {
    let m = &case.model;
    let mut out = Outcome::new(m);
    let mut r = SmallRng::seed_from_u64(case.sub);
    let sols = m.enumerate();
    let mut all_ev = vec![];
    let mut descs = vec![];
    for ci in 0..4 {
        let cfg = deep_chain_config(&mut r);
        descs.push(cfg.to_json());
        pumpkin_solver::verif::enable();
        let mut map = Default::default();
        let res = guard(|| {
            let mut out = Outcome::default();
            let mut b = build(m, cfg.opts.to_options(), m.cons.len(), false, false);
            map = dom_map(&b.xs);
            if check_post_err(&mut out, m, &b) {
                out.cover("verdict:post-error");
                return out;
            }
            let mut brancher = make_brancher(&cfg.br, &b.solver, &b.xs);
            let mut t = Budget::for_model(m);
            match b.solver.satisfy(&mut brancher, &mut t) {
                SatisfactionResult::Satisfiable(sol) => {
                    out.cover("verdict:sat");
                    let _ = check_solution(&mut out, m, &read_solution(&sol, &b.xs), "satisfy");
                }
                SatisfactionResult::Unsatisfiable => {
                    out.cover("verdict:unsat");
                    if let Some(a) = sols.iter().next() {
                        out.fail("unsat-but-satisfiable", format!("satisfy reported Unsatisfiable but {a:?} is a solution ({} solutions)", sols.len()));
                    }
                }
                SatisfactionResult::Unknown => {
                    out.fail("budget-exhausted", format!("no verdict within {} polls with a termination condition that never fires before", t.polls));
                }
            }
            out
        });
        let ev = pumpkin_solver::verif::drain();
        pumpkin_solver::verif::disable();
        merge(&mut out, res);
        if !out.failed() {
            let _ = events::check_learned(&mut out, &ev, &sols, &map);
        }
        if out.failed() {
            cfg.label(&mut out);
            out.config = Json::obj([("failing_configuration", cfg.to_json()), ("index", Json::Int(ci as i128))]);
            nontrivial(&mut out, &ev, 0);
            return out;
        }
        all_ev.extend(ev);
    }
    out.config = Json::Arr(descs);
    out.cover("shape:deep-chain");
    nontrivial(&mut out, &all_ev, 0);
    out.count(if sols.is_empty() { "models_unsat" } else { "models_sat" }, 1);
    out
}

/// Configuration for the deep-chain models: learning on, minimisation mostly on, no tiny nogood
/// limits, an independent variable/value selector (most of which fix a long stretch of the chain with
/// a single decision) or the default brancher.
pub fn deep_chain_config(r: &mut SmallRng) -> Config {
    let mut c = Config::random_progressing(r);
    c.opts.no_learning = false;
    if r.gen_bool(0.8) {
        c.opts.minimise = true;
    }
    c.br = if r.gen_bool(0.75) { BrSpec::Ivv(r.gen_range(0..11), r.gen_range(0..14), r.gen()) } else { BrSpec::Default };
    c
}

// ---------------------------------------------------------------------------------------------
// C04: optimisation

pub fn run_c04(case: &Case) -> Outcome {
    let m = &case.model;
    let mut out = Outcome::new(m);
    let mut r = SmallRng::seed_from_u64(case.sub);
    let cfg = Config::random_progressing(&mut r);
    cfg.label(&mut out);
    let obj = gen::gen_view(&mut r, m, false, true);
    let maximise = r.gen_bool(0.5);
    let unsat_sat = r.gen_bool(0.5);
    let sols = m.enumerate();
    let objs: Vec<i128> = sols.iter().map(|a| obj.val(a)).collect();
    let best = if maximise { objs.iter().max().copied() } else { objs.iter().min().copied() };
    let tagname = format!("{}/{}", if unsat_sat { "unsat-sat" } else { "sat-unsat" }, if maximise { "max" } else { "min" });
    out.config = Json::obj([
        ("solver", cfg.to_json()),
        ("objective", Json::str(format!("{}*x{}+{}", obj.s, obj.var, obj.o))),
        ("procedure", Json::str(tagname.clone())),
    ]);
    if !obj.is_plain() {
        out.class("objective.view");
    }
    pumpkin_solver::verif::enable();
    let res = guard(|| {
        let mut out = Outcome::default();
        let mut b = build(m, cfg.opts.to_options(), m.cons.len(), false, false);
        if check_post_err(&mut out, m, &b) {
            return out;
        }
        let mut brancher = make_brancher(&cfg.br, &b.solver, &b.xs);
        let mut t = Budget::for_model(m);
        let dir = if maximise { OptimisationDirection::Maximise } else { OptimisationDirection::Minimise };
        let o = mk_view(&obj, &b.xs);
        let cbs: RefCell<Vec<Result<Vec<i64>, String>>> = RefCell::new(vec![]);
        let xs = b.xs.clone();
        let cb = |_: &Solver, s: SolutionReference, _: &BoxB| cbs.borrow_mut().push(read_solution_ref(s, &xs));
        let res = if unsat_sat {
            b.solver.optimise(&mut brancher, &mut t, LinearUnsatSat::new(dir, o, cb))
        } else {
            b.solver.optimise(&mut brancher, &mut t, LinearSatUnsat::new(dir, o, cb))
        };
        out.cover(format!("procedure:{tagname}"));
        // callbacks: each a solution; sat-unsat: strictly improving
        let mut prev: Option<i128> = None;
        for a in cbs.borrow().iter() {
            if !check_solution(&mut out, m, a, "callback") {
                return out;
            }
            let v = obj.val(a.as_ref().unwrap());
            if !unsat_sat {
                if let Some(p) = prev {
                    if (maximise && v <= p) || (!maximise && v >= p) {
                        out.fail("callback-not-improving", format!("callback objective went from {p} to {v}"));
                        return out;
                    }
                }
            }
            prev = Some(v);
        }
        out.count("callbacks", cbs.borrow().len() as u64);
        match res {
            OptimisationResult::Optimal(sol) => {
                let a = read_solution(&sol, &b.xs);
                if check_solution(&mut out, m, &a, "Optimal") {
                    let v = obj.val(&a.unwrap());
                    if Some(v) != best {
                        out.fail("wrong-optimum", format!("{tagname}: Optimal with objective {v}, true optimum {best:?}"));
                    }
                }
            }
            OptimisationResult::Unsatisfiable => {
                if best.is_some() {
                    out.fail("unsat-but-satisfiable", format!("{tagname}: Unsatisfiable but the model has {} solutions", sols.len()));
                }
            }
            OptimisationResult::Satisfiable(_) | OptimisationResult::Unknown => {
                out.fail("budget-exhausted", format!("{tagname}: no optimality verdict within {} polls", t.polls));
            }
        }
        out
    });
    let ev = pumpkin_solver::verif::drain();
    pumpkin_solver::verif::disable();
    merge(&mut out, res);
    nontrivial(&mut out, &ev, sols.len());
    out
}

// ---------------------------------------------------------------------------------------------
// C05: assumptions and cores

pub fn run_c05(case: &Case) -> Outcome {
    let m = &case.model;
    let mut out = Outcome::new(m);
    let mut r = SmallRng::seed_from_u64(case.sub);
    let cfg = Config::random(&mut r);
    cfg.label(&mut out);
    let sols = m.enumerate();
    let rounds = r.gen_range(2..=6);
    let in_dom = r.gen_bool(0.5);
    let mut lists: Vec<Vec<MPred>> = vec![];
    for _ in 0..rounds {
        let n = r.gen_range(1..=5);
        let mut l = gen_assumptions(&mut r, m, n, in_dom);
        match r.gen_range(0..6) {
            0 => {
                // duplicate
                let x = l[0];
                l.push(x);
            }
            1 => {
                // directly contradictory pair
                let x = l[0].negate();
                let at = r.gen_range(0..=l.len());
                l.insert(at, x);
            }
            2 => {
                // mutually implied
                let x = l[0];
                if x.k == PK::Ge {
                    l.push(MPred { var: x.var, k: PK::Ge, v: x.v - 1 });
                }
            }
            3 => {
                // compatible pair over the same variable and the same constant (e.g. [x <= c], [x == c])
                let x = l[0];
                let k2 = match x.k {
                    PK::Eq => [PK::Le, PK::Ge][r.gen_range(0..2)],
                    PK::Le | PK::Ge => PK::Eq,
                    PK::Ne => PK::Ne,
                };
                let at = r.gen_range(0..=l.len());
                l.insert(at, MPred { var: x.var, k: k2, v: x.v });
            }
            _ => {}
        }
        lists.push(l);
    }
    let all = m.all_assignments();
    // input class: some assumption is false in every solution of the model
    if lists.iter().flatten().any(|p| !sols.iter().any(|a| p.holds(a))) {
        out.class("assume.model_false");
    }
    if lists.iter().any(|l| (0..l.len()).any(|i| (0..l.len()).any(|j| i != j && all_dom_exclusive(m, &l[i], &l[j])))) {
        out.class("assume.contradictory_pair");
    }
    pumpkin_solver::verif::enable();
    let res = guard(|| {
        let mut out = Outcome::default();
        let mut b = build(m, cfg.opts.to_options(), m.cons.len(), false, false);
        if check_post_err(&mut out, m, &b) {
            return out;
        }
        let map = dom_map(&b.xs);
        let mut brancher = make_brancher(&cfg.br, &b.solver, &b.xs);
        for ass in &lists {
            let preds: Vec<_> = ass.iter().map(|p| from_mpred(p, &b.xs)).collect();
            let under: Vec<&Vec<i64>> = sols.iter().filter(|a| ass.iter().all(|p| p.holds(a))).collect();
            let direct_contradiction =
                (0..ass.len()).any(|i| (0..ass.len()).any(|j| i != j && all_dom_exclusive(m, &ass[i], &ass[j])));
            let desc = events::show_preds(ass);
            let mut t = Budget::for_model(m);
            {
                let result = b.solver.satisfy_under_assumptions(&mut brancher, &mut t, &preds);
                match result {
                    SRA::Satisfiable(sol) => {
                        out.cover("assume:sat");
                        let a = read_solution(&sol, &b.xs);
                        if check_solution(&mut out, m, &a, "satisfy_under_assumptions") {
                            let a = a.unwrap();
                            if let Some(p) = ass.iter().find(|p| !p.holds(&a)) {
                                out.fail("solution-violates-assumption", format!("{a:?} violates {} (assumptions {desc})", p.show()));
                            }
                        }
                    }
                    SRA::Unsatisfiable => {
                        out.cover("assume:unsat");
                        if !sols.is_empty() {
                            out.fail("unsat-but-satisfiable", format!("Unsatisfiable under {desc} but the model has {} solutions", sols.len()));
                        }
                    }
                    SRA::Unknown => out.fail("budget-exhausted", format!("no answer under {desc}")),
                    SRA::UnsatisfiableUnderAssumptions(mut u) => {
                        out.cover("assume:unsat-under-assumptions");
                        if let Some(a) = under.first() {
                            out.fail("unsat-under-assumptions-but-satisfiable", format!("{a:?} satisfies the model and {desc}"));
                        } else {
                            match guard(|| u.extract_core()) {
                                Err(p) => {
                                    if p.contains("Conflicting assumptions") && direct_contradiction {
                                        out.cover("core:conflicting-assumptions-reported");
                                    } else {
                                        out.fail("core-panic", format!("extract_core under {desc}: {p}"));
                                    }
                                }
                                Ok(core) => {
                                    out.cover("core:extracted");
                                    out.count("cores_checked", 1);
                                    match events::translate(&core, &map) {
                                        Err(e) => out.fail("core-foreign-predicate", e),
                                        Ok(None) => {}
                                        Ok(Some(cps)) => {
                                            // each core predicate implied by the assumptions over the declared domains
                                            if let Some(a) = all.iter().find(|a| ass.iter().all(|p| p.holds(a)) && !cps.iter().all(|p| p.holds(a))) {
                                                out.fail(
                                                    "core-not-implied-by-assumptions",
                                                    format!("core {} under assumptions {desc}: {a:?} satisfies the assumptions but not the core", events::show_preds(&cps)),
                                                );
                                            } else if let Some(a) = sols.iter().find(|a| cps.iter().all(|p| p.holds(a))) {
                                                out.fail(
                                                    "core-consistent-with-model",
                                                    format!("core {} under assumptions {desc}: solution {a:?} satisfies the whole core", events::show_preds(&cps)),
                                                );
                                            }
                                        }
                                    }
                                }
                            }
                        }
                    }
                }
            }
            if out.failed() {
                return out;
            }
            // assumptions are not retained
            let mut t = Budget::for_model(m);
            match b.solver.satisfy(&mut brancher, &mut t) {
                SatisfactionResult::Satisfiable(sol) => {
                    let _ = check_solution(&mut out, m, &read_solution(&sol, &b.xs), "satisfy after assumptions");
                }
                SatisfactionResult::Unsatisfiable => {
                    if !sols.is_empty() {
                        out.fail("assumptions-retained", format!("after solving under {desc}, satisfy reports Unsatisfiable but the model has solutions"));
                    }
                }
                SatisfactionResult::Unknown => out.fail("budget-exhausted", "no answer after assumption solve"),
            }
            if out.failed() {
                return out;
            }
            out.count("assumption_solves", 1);
        }
        out
    });
    let ev = pumpkin_solver::verif::drain();
    pumpkin_solver::verif::disable();
    merge(&mut out, res);
    nontrivial(&mut out, &ev, sols.len());
    out.config = Json::obj([
        ("solver", cfg.to_json()),
        ("assumption_lists", Json::arr(&lists, |l| Json::str(events::show_preds(l)))),
    ]);
    out
}

/// x and y are over the same variable and cannot both hold for any value (a "directly
/// contradictory pair").
fn all_dom_exclusive(m: &Model, x: &MPred, y: &MPred) -> bool {
    if x.var != y.var {
        return false;
    }
    let d = &m.vars[x.var];
    !(d.lo() - 2..=d.hi() + 2).any(|v| x.holds_val(v) && y.holds_val(v))
}

// ---------------------------------------------------------------------------------------------
// C12: root bounds

/// Reads the root bounds of every created variable and of the views over created variables and
/// compares them with the hull of `sols` (the solutions of the prefix model), the declared domains
/// and the bounds seen before. Returns false after a failure.
#[allow(clippy::too_many_arguments)]
fn c12_check_bounds(
    s: &Solver,
    m: &Model,
    xs: &[X],
    views: &[View],
    sols: &BTreeSet<Vec<i64>>,
    prev: &mut Vec<Option<(i64, i64)>>,
    at: &str,
    out: &mut Outcome,
) -> bool {
    let mut changed = false;
    for (i, x) in xs.iter().enumerate() {
        let (lb, ub) = match x {
            X::I(d) => (s.lower_bound(d) as i64, s.upper_bound(d) as i64),
            X::B(l) => (s.lower_bound(l) as i64, s.upper_bound(l) as i64),
        };
        out.count("bounds_checked", 2);
        if lb < m.vars[i].lo() || ub > m.vars[i].hi() {
            out.fail("bound-outside-declared-domain", format!("{at} x{i} in [{lb},{ub}], declared [{},{}]", m.vars[i].lo(), m.vars[i].hi()));
            return false;
        }
        if !sols.is_empty() {
            let mn = sols.iter().map(|a| a[i]).min().unwrap();
            let mx = sols.iter().map(|a| a[i]).max().unwrap();
            if lb > mn || ub < mx {
                out.fail("bound-excludes-solution", format!("{at} x{i} reported in [{lb},{ub}] but solutions use values {mn}..{mx}"));
                return false;
            }
        }
        if let X::B(l) = x {
            if let Some(bv) = s.get_literal_value(*l) {
                out.count("literal_values_checked", 1);
                if let Some(a) = sols.iter().find(|a| (a[i] == 1) != bv) {
                    out.fail("literal-value-excludes-solution", format!("{at} x{i} reported {bv} but {a:?} is a solution"));
                    return false;
                }
            }
        }
        if let Some((a0, a1)) = prev[i] {
            if lb < a0 || ub > a1 {
                out.fail("bounds-not-monotone", format!("x{i} went from [{a0},{a1}] to [{lb},{ub}] {at}"));
                return false;
            }
            changed |= (a0, a1) != (lb, ub);
        }
        prev[i] = Some((lb, ub));
    }
    for v in views.iter().filter(|v| v.var < xs.len()) {
        let av = mk_view(v, xs);
        let (vl, vu) = (s.lower_bound(&av) as i64, s.upper_bound(&av) as i64);
        out.count("view_bounds_checked", 2);
        let d = &m.vars[v.var];
        let (dl, du) = ((v.s * d.lo() + v.o).min(v.s * d.hi() + v.o), (v.s * d.lo() + v.o).max(v.s * d.hi() + v.o));
        if vl < dl || vu > du {
            out.fail("bound-outside-declared-domain", format!("{at} view {v:?} reported in [{vl},{vu}], declared image [{dl},{du}]"));
            return false;
        }
        if !sols.is_empty() {
            let mn = sols.iter().map(|a| v.val(a)).min().unwrap();
            let mx = sols.iter().map(|a| v.val(a)).max().unwrap();
            if (vl as i128) > mn || (vu as i128) < mx {
                out.fail("bound-excludes-solution", format!("{at} view {v:?} reported in [{vl},{vu}] but solutions give {mn}..{mx}"));
                return false;
            }
        }
    }
    if changed {
        out.count("tightening_steps", 1);
    }
    true
}

/// Three shapes by the case's sub seed: (0) all variables first, then the postings; (1) every variable
/// is created only just before the first constraint that mentions it (the remaining ones at the end);
/// (2) as (1), and between postings the solver is asked to solve (satisfy, satisfy interrupted after a
/// few polls, satisfy under assumptions): the bounds reported once it is back at the root still have
/// to enclose every solution of the prefix model and may only have tightened.
pub fn run_c12(case: &Case) -> Outcome {
    let m = &case.model;
    let mut out = Outcome::new(m);
    let mut r = SmallRng::seed_from_u64(case.sub);
    let seed = r.gen();
    let views: Vec<View> = (0..3).map(|_| gen::gen_view(&mut r, m, false, true)).collect();
    let shape = [0usize, 0, 1, 2, 2][r.gen_range(0..5)];
    let res = guard(|| {
        let mut out = Outcome::default();
        out.cover(format!("shape:{}", ["vars-first", "vars-lazy", "vars-lazy+solves"][shape]));
        let mut s = Solver::with_options(OptSpec::default_with_seed(seed).to_options());
        let n = m.vars.len();
        let mut xs: Vec<X> = if shape == 0 { new_vars(&mut s, m, 0, false) } else { vec![] };
        let mut prev: Vec<Option<(i64, i64)>> = vec![None; n];
        for upto in 0..=m.cons.len() {
            if upto > 0 {
                let c = &m.cons[upto - 1];
                let need = scope_r(c).into_iter().max().map_or(0, |x| x + 1);
                if need > xs.len() {
                    let from = xs.len();
                    let part = Model { vars: m.vars[..need].to_vec(), cons: vec![] };
                    xs.extend(new_vars(&mut s, &part, from, false));
                    out.count("variables_created_between_postings", (need - from) as u64);
                }
                if post_con(&mut s, &xs, c, None).is_err() {
                    out.count("post_errors", 1);
                    if !m.enumerate_prefix(upto).is_empty() {
                        out.fail(
                            "post-infeasible-but-satisfiable",
                            format!("posting constraint #{} ({}) returned an error but the prefix model has solutions", upto - 1, c.0.kind()),
                        );
                    }
                    return out;
                }
            }
            if upto == m.cons.len() && xs.len() < n {
                let from = xs.len();
                xs.extend(new_vars(&mut s, m, from, false));
            }
            let sols = m.enumerate_prefix(upto);
            if !c12_check_bounds(&s, m, &xs, &views, &sols, &mut prev, &format!("after {upto} constraints"), &mut out) {
                return out;
            }
            out.count("prefixes_checked", 1);
            if shape == 2 && !xs.is_empty() && r.gen_bool(0.5) {
                let kind = r.gen_range(0..3);
                let mut brancher = s.default_brancher();
                let prefix_ok = |a: &[i64]| m.cons[..upto].iter().all(|c| holds_r(c, a));
                // variables that do not exist yet are not constrained by the prefix
                let full = |a: Vec<i64>| -> Vec<i64> { a.into_iter().chain(m.vars[xs.len()..].iter().map(|v| v.lo())).collect() };
                let mut dead = false;
                match kind {
                    0 | 1 => {
                        let stop = if kind == 1 { Some(r.gen_range(0..20u64)) } else { None };
                        let mut t = StopAt::new(stop, Budget::for_model(m).left);
                        out.cover(if kind == 1 { "between:satisfy-interrupted" } else { "between:satisfy" });
                        match s.satisfy(&mut brancher, &mut t) {
                            SatisfactionResult::Satisfiable(sol) => match read_solution(&sol, &xs) {
                                Ok(a) => {
                                    if !prefix_ok(&full(a.clone())) {
                                        out.fail("solution-violates-model", format!("solve after {upto} constraints returned {a:?}"));
                                        return out;
                                    }
                                }
                                Err(e) => {
                                    out.fail("partial-solution", e);
                                    return out;
                                }
                            },
                            SatisfactionResult::Unsatisfiable => {
                                if !sols.is_empty() {
                                    out.fail("unsat-but-satisfiable", format!("solve after {upto} constraints: Unsatisfiable, the prefix model has {} solutions", sols.len()));
                                    return out;
                                }
                                dead = true;
                            }
                            SatisfactionResult::Unknown => {
                                if !t.fired {
                                    out.fail("budget-exhausted", format!("solve after {upto} constraints: Unknown without a firing termination condition"));
                                    return out;
                                }
                                out.count("solves_interrupted", 1);
                            }
                        }
                    }
                    _ => {
                        let k = r.gen_range(1..=2);
                        let asm: Vec<MPred> = (0..k)
                            .map(|_| {
                                let var = r.gen_range(0..xs.len());
                                let d = &m.vars[var];
                                MPred { var, k: [PK::Ge, PK::Le, PK::Eq, PK::Ne][r.gen_range(0..4)], v: r.gen_range(d.lo()..=d.hi()) }
                            })
                            .collect();
                        if asm.len() == 2 && asm[0].var == asm[1].var {
                            // a directly contradictory pair is rejected by a documented panic
                            let d = &m.vars[asm[0].var];
                            if !(d.lo()..=d.hi()).any(|v| asm[0].holds_val(v) && asm[1].holds_val(v)) {
                                continue;
                            }
                        }
                        let preds: Vec<_> = asm.iter().map(|p| from_mpred(p, &xs)).collect();
                        let mut t = StopAt::new(None, Budget::for_model(m).left);
                        out.cover("between:assumptions");
                        match s.satisfy_under_assumptions(&mut brancher, &mut t, &preds) {
                            SRA::Satisfiable(sol) => match read_solution(&sol, &xs) {
                                Ok(a) => {
                                    let a = full(a);
                                    if !prefix_ok(&a) || !asm.iter().all(|p| p.holds(&a)) {
                                        out.fail("solution-violates-model", format!("solve under {asm:?} after {upto} constraints returned {a:?}"));
                                        return out;
                                    }
                                }
                                Err(e) => {
                                    out.fail("partial-solution", e);
                                    return out;
                                }
                            },
                            SRA::UnsatisfiableUnderAssumptions(_) => {
                                if let Some(a) = sols.iter().find(|a| asm.iter().all(|p| p.holds(a))) {
                                    out.fail("unsat-but-satisfiable", format!("under {asm:?} after {upto} constraints: unsatisfiable under assumptions but {a:?} is a solution"));
                                    return out;
                                }
                            }
                            SRA::Unsatisfiable => {
                                if !sols.is_empty() {
                                    out.fail("unsat-but-satisfiable", format!("under {asm:?} after {upto} constraints: Unsatisfiable, the prefix model has {} solutions", sols.len()));
                                    return out;
                                }
                                dead = true;
                            }
                            SRA::Unknown => {
                                out.fail("budget-exhausted", format!("solve under assumptions after {upto} constraints: Unknown"));
                                return out;
                            }
                        }
                    }
                }
                out.count("solves_between_postings", 1);
                if dead {
                    // the solver has proven the prefix infeasible; nothing may be added any more
                    return out;
                }
                if !c12_check_bounds(&s, m, &xs, &views, &sols, &mut prev, &format!("after a solve that followed {upto} constraints"), &mut out) {
                    return out;
                }
            }
        }
        out
    });
    merge(&mut out, res);
    out.nontrivial = out.counters.get("tightening_steps").copied().unwrap_or(0) > 0;
    out
}
