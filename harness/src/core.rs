//! Shared plumbing: cases, outcomes, panic capture.
use std::cell::RefCell;
use std::collections::BTreeMap;
use std::collections::BTreeSet;

use crate::gen;
use crate::json::Json;
use crate::model::Model;

#[derive(Clone, Debug)]
pub struct Case {
    pub model: Model,
    /// seed of every further random choice of the case (options, brancher, assumptions, history…)
    pub sub: u64,
    /// mode-specific extra parameters
    pub extra: Json,
}

impl Case {
    pub fn to_json(&self) -> Json {
        Json::obj([("model", self.model.to_json()), ("sub", Json::Int(self.sub as i128)), ("extra", self.extra.clone())])
    }
    pub fn from_json(j: &Json) -> Case {
        Case { model: Model::from_json(j.get("model")), sub: j.get("sub").as_u64(), extra: j.get("extra").clone() }
    }
}

#[derive(Clone, Debug, Default)]
pub struct Outcome {
    pub fail: Option<(String, String)>,
    pub skip: Option<String>,
    pub nontrivial: bool,
    pub counters: BTreeMap<String, u64>,
    pub cover: BTreeSet<String>,
    pub classes: Vec<String>,
    pub notes: Vec<String>,
    pub config: Json,
}

impl Default for Json {
    fn default() -> Self {
        Json::Null
    }
}

impl Outcome {
    pub fn new(m: &Model) -> Outcome {
        Outcome { classes: gen::classes(m), ..Default::default() }
    }
    pub fn fail(&mut self, kind: impl Into<String>, detail: impl Into<String>) {
        if self.fail.is_none() {
            self.fail = Some((kind.into(), detail.into()));
        }
    }
    pub fn failed(&self) -> bool {
        self.fail.is_some()
    }
    pub fn count(&mut self, k: &str, n: u64) {
        *self.counters.entry(k.to_string()).or_insert(0) += n;
    }
    pub fn class(&mut self, c: impl Into<String>) {
        let c = c.into();
        if !self.classes.contains(&c) {
            self.classes.push(c);
        }
    }
    pub fn cover(&mut self, c: impl Into<String>) {
        let _ = self.cover.insert(c.into());
    }
    pub fn to_json(&self, idx: u64, case: &Case, fp: u64) -> Json {
        let status = if self.fail.is_some() {
            "fail"
        } else if self.skip.is_some() {
            "skip"
        } else {
            "ok"
        };
        let mut o = vec![
            ("i", Json::Int(idx as i128)),
            ("status", Json::str(status)),
            ("nontrivial", Json::Bool(self.nontrivial)),
            ("fp", Json::str(format!("{fp:016x}"))),
            ("classes", Json::arr(&self.classes, |c| Json::str(c.clone()))),
            ("counters", Json::Obj(self.counters.iter().map(|(k, v)| (k.clone(), Json::Int(*v as i128))).collect())),
            ("cover", Json::arr(&self.cover, |c| Json::str(c.clone()))),
            ("config", self.config.clone()),
        ];
        if let Some((k, d)) = &self.fail {
            o.push(("kind", Json::str(k.clone())));
            o.push(("detail", Json::str(d.clone())));
        }
        if let Some(s) = &self.skip {
            o.push(("skip", Json::str(s.clone())));
        }
        if !self.notes.is_empty() {
            o.push(("notes", Json::arr(&self.notes, |c| Json::str(c.clone()))));
        }
        o.push(("case", case.to_json()));
        Json::Obj(o.into_iter().map(|(k, v)| (k.to_string(), v)).collect())
    }
}

thread_local! {
    static LAST_PANIC: RefCell<Option<String>> = const { RefCell::new(None) };
}

pub fn install_panic_hook() {
    std::panic::set_hook(Box::new(|info| {
        let msg = info
            .payload()
            .downcast_ref::<String>()
            .cloned()
            .or_else(|| info.payload().downcast_ref::<&str>().map(|s| s.to_string()))
            .unwrap_or_else(|| "<non-string panic>".into());
        let loc = info
            .location()
            .map(|l| {
                let f = l.file();
                let f = f.rsplit_once("/repo/").map(|x| x.1).unwrap_or(f);
                format!("{}:{}", f, l.line())
            })
            .unwrap_or_default();
        let first = msg.lines().next().unwrap_or("").chars().take(160).collect::<String>();
        if std::env::var("VCHECK_SHOW_PANIC").is_ok() {
            eprintln!("PANIC {first} @ {loc}\n{}", std::backtrace::Backtrace::force_capture());
        }
        LAST_PANIC.with(|p| *p.borrow_mut() = Some(format!("{first} @ {loc}")));
    }));
}

/// Run `f`, turning a panic into `Err("<message> @ <file>:<line>")`.
pub fn guard<T>(f: impl FnOnce() -> T) -> Result<T, String> {
    LAST_PANIC.with(|p| *p.borrow_mut() = None);
    match std::panic::catch_unwind(std::panic::AssertUnwindSafe(f)) {
        Ok(v) => Ok(v),
        Err(_) => Err(LAST_PANIC.with(|p| p.borrow_mut().take()).unwrap_or_else(|| "<unknown panic>".into())),
    }
}

pub fn show_assignment(a: &[i64]) -> String {
    format!("{a:?}")
}
