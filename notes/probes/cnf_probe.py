import random, subprocess, itertools, sys, os
P='/repo/target/debug/pumpkin-solver'
def brute(n, clauses):
    for bits in itertools.product([False,True], repeat=n):
        if all(any((bits[abs(l)-1]) == (l>0) for l in c) for c in clauses): return True
    return False
def unit_prop(clauses, assumps):
    val={}
    for l in assumps:
        if val.get(abs(l), l>0) != (l>0): return True
        val[abs(l)]=l>0
    changed=True
    while changed:
        changed=False
        for c in clauses:
            un=[]; sat=False
            for l in c:
                v=val.get(abs(l))
                if v is None: un.append(l)
                elif v==(l>0): sat=True; break
            if sat: continue
            if not un: return True
            if len(un)==1:
                val[abs(un[0])]=un[0]>0; changed=True
    return False
def rup_check(clauses, lemmas):
    db=[list(c) for c in clauses]
    for lem in lemmas:
        if not unit_prop(db, [-l for l in lem]): return False, lem
        db.append(lem)
    return (len(lemmas)>0 and lemmas[-1]==[]), None
random.seed(int(sys.argv[1])); N=int(sys.argv[2])
stats={'sat':0,'unsat':0,'bad':0}
for i in range(N):
    n=random.randint(0,8); m=random.randint(0,30)
    clauses=[]
    for _ in range(m):
        k=random.choice([0,1,1,2,2,3,3,3,4]) if n>0 else 0
        clauses.append([random.choice([-1,1])*random.randint(1,n) for _ in range(k)])
    path=f'/tmp/scratch/cnf/t{i%16}.cnf'; proof=path+'.drat'
    with open(path,'w') as f:
        f.write(f'p cnf {n} {len(clauses)}\n')
        for c in clauses: f.write(' '.join(map(str,c+[0]))+'\n')
    if os.path.exists(proof): os.remove(proof)
    r=subprocess.run([P,path,'--proof-path',proof],capture_output=True,text=True)
    out=r.stdout
    exp=brute(n,clauses)
    if 's SATISFIABLE' in out:
        stats['sat']+=1
        v=[int(x) for l in out.splitlines() if l.startswith('v ') for x in l[2:].split()]
        assign={abs(x):x>0 for x in v if x!=0}
        ok = exp and len(assign)==n and all(any(assign[abs(l)]==(l>0) for l in c) for c in clauses)
        if not ok: stats['bad']+=1; print('BAD SAT', n, clauses, out[-200:])
    elif 's UNSATISFIABLE' in out:
        stats['unsat']+=1
        lem=[[int(x) for x in l.split()[:-1]] for l in open(proof).read().splitlines() if l.strip()]
        ok,why=rup_check(clauses,lem)
        if exp or not ok: stats['bad']+=1; print('BAD UNSAT exp_sat=',exp,'rup_ok=',ok,why, n, clauses, lem)
    else:
        stats['bad']+=1; print('BAD OTHER', r.returncode, n, clauses, (out+r.stderr)[-300:])
print(stats)
