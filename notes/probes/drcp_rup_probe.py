import sys, re, glob, os
def parse_lits(path):
    m={}
    for line in open(path):
        line=line.strip()
        if not line: continue
        code, rest = line.split(' ',1)
        mm=re.match(r'\[(\w+) (==|!=|<=|>=) (-?\d+)\]', rest)
        m[int(code)]=(mm.group(1), mm.group(2), int(mm.group(3)))
    return m
NEG={'==':'!=','!=':'==','<=':'>','>=':'<'}
def atom(lits, code):
    v,op,c = lits[abs(code)]
    if code<0:
        if op=='<=': return (v,'>=',c+1)
        if op=='>=': return (v,'<=',c-1)
        return (v,NEG[op],c)
    return (v,op,c)
def sat(val,op,c):
    return {'==':val==c,'!=':val!=c,'<=':val<=c,'>=':val>=c}[op]
def truth(dom,a):
    v,op,c=a
    vals=[sat(x,op,c) for x in dom[v]]
    if all(vals): return True
    if not any(vals): return False
    return None
def assert_atom(dom,a):
    v,op,c=a
    new={x for x in dom[v] if sat(x,op,c)}
    changed = new!=dom[v]
    dom[v]=new
    return changed, len(new)>0
def rup(init, clause_atoms, infs, prev):
    dom={k:set(v) for k,v in init.items()}
    for a in clause_atoms:
        v,op,c=a
        # assert negation
        na = {'==':(v,'!=',c),'!=':(v,'==',c),'<=':(v,'>=',c+1),'>=':(v,'<=',c-1)}[op]
        ch,ok=assert_atom(dom,na)
        if not ok: return True
    while True:
        changed=False
        for prem,concl in infs:
            if all(truth(dom,p) is True for p in prem):
                if concl is None: return True
                ch,ok=assert_atom(dom,concl)
                if not ok: return True
                changed|=ch
        for cl in prev:
            ts=[truth(dom,a) for a in cl]
            if any(t is True for t in ts): continue
            un=[a for a,t in zip(cl,ts) if t is None]
            if not un: return True
            if len(un)==1:
                ch,ok=assert_atom(dom,un[0])
                if not ok: return True
                changed|=ch
        if not changed: return False
def check(base):
    lits=parse_lits(base+'.lits')
    init={}
    for line in open(base+'.dom'):
        p=line.split(); init[p[0]]=set(map(int,p[1:]))
    infs=[]; prev=[]; res=[]; n=0; empty_seen=False; concl=None
    for line in open(base+'.drcp'):
        t=line.split()
        if not t: continue
        if t[0]=='i':
            body=[x for x in t[2:] if not x.startswith('c:') and not x.startswith('l:')]
            if '0' in body:
                z=body.index('0'); prem=body[:z]; c=body[z+1:]
            else: prem=body; c=[]
            infs.append(([atom(lits,int(x)) for x in prem], atom(lits,int(c[0])) if c else None))
        elif t[0]=='n':
            body=t[2:]
            if '0' in body: body=body[:body.index('0')]
            cl=[atom(lits,int(x)) for x in body]
            ok=rup(init,cl,infs,prev)
            n+=1
            if not ok: res.append((int(t[1]),line.strip()))
            prev.append(cl); infs=[]
            if not cl: empty_seen=True
        elif t[0]=='c':
            concl=t[1]
    return n,res,empty_seen,concl
tot=0; bad=0; files=0
for d in sys.argv[1:]:
    for f in sorted(glob.glob(d+'/*.dom')):
        base=f[:-4]
        if not os.path.exists(base+'.lits'): continue
        n,res,e,c=check(base)
        files+=1; tot+=n
        if res or not e or c!='UNSAT':
            bad+=1
            print(base, 'FAILED steps', res[:3], 'empty', e, 'concl', c)
print('files',files,'nogood steps',tot,'bad files',bad)
