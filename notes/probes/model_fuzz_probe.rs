// Throw-away probe: random models -> Pumpkin iteration vs brute force. NOT the framework.
use std::collections::BTreeSet;
use std::num::NonZero;

use pumpkin_solver::constraints;
use pumpkin_solver::constraints::Constraint;
use pumpkin_solver::constraints::NegatableConstraint;
use pumpkin_solver::options::*;
use pumpkin_solver::results::solution_iterator::IteratedSolution;
use pumpkin_solver::results::ProblemSolution;
use pumpkin_solver::termination::TerminationCondition;
use pumpkin_solver::variables::*;
use pumpkin_solver::Solver;
use rand::rngs::SmallRng;
use rand::Rng;
use rand::SeedableRng;

#[derive(Clone, Debug)]
struct V {
    var: usize,
    s: i64,
    o: i64,
}
#[derive(Clone, Debug)]
enum C {
    LinLe(Vec<V>, i64),
    LinEq(Vec<V>, i64),
    LinNe(Vec<V>, i64),
    AllDiff(Vec<V>),
    Times(V, V, V),
    Div(V, V, V),
    Abs(V, V),
    Max(Vec<V>, V),
    Min(Vec<V>, V),
    Elem(V, Vec<V>, V),
    Cumul(Vec<V>, Vec<i64>, Vec<i64>, i64, usize),
    Clause(Vec<(usize, bool)>),
    Conj(Vec<(usize, bool)>),
}
#[derive(Clone, Debug)]
enum R {
    Plain,
    Implied(usize, bool),
    Reified(usize, bool),
    Negated,
}
#[derive(Clone, Debug)]
struct Model {
    doms: Vec<Vec<i64>>,
    is_bool: Vec<bool>,
    sparse: Vec<bool>,
    cons: Vec<(C, R)>,
}

fn val(v: &V, a: &[i64]) -> i64 {
    v.s * a[v.var] + v.o
}
fn holds(c: &C, a: &[i64]) -> bool {
    match c {
        C::LinLe(t, r) => t.iter().map(|v| val(v, a)).sum::<i64>() <= *r,
        C::LinEq(t, r) => t.iter().map(|v| val(v, a)).sum::<i64>() == *r,
        C::LinNe(t, r) => t.iter().map(|v| val(v, a)).sum::<i64>() != *r,
        C::AllDiff(t) => {
            let vs: Vec<i64> = t.iter().map(|v| val(v, a)).collect();
            (0..vs.len()).all(|i| (i + 1..vs.len()).all(|j| vs[i] != vs[j]))
        }
        C::Times(x, y, z) => val(x, a) * val(y, a) == val(z, a),
        C::Div(x, y, z) => {
            let d = val(y, a);
            d != 0 && val(x, a) / d == val(z, a)
        }
        C::Abs(x, y) => val(x, a).abs() == val(y, a),
        C::Max(t, r) => t.iter().map(|v| val(v, a)).max().unwrap() == val(r, a),
        C::Min(t, r) => t.iter().map(|v| val(v, a)).min().unwrap() == val(r, a),
        C::Elem(i, arr, r) => {
            let idx = val(i, a);
            idx >= 0 && (idx as usize) < arr.len() && val(&arr[idx as usize], a) == val(r, a)
        }
        C::Cumul(st, du, rq, cap, _) => {
            let s: Vec<i64> = st.iter().map(|v| val(v, a)).collect();
            let lo = *s.iter().min().unwrap();
            let hi = s.iter().zip(du).map(|(s, d)| s + d).max().unwrap();
            (lo..=hi).all(|t| {
                (0..s.len())
                    .filter(|&i| s[i] <= t && t < s[i] + du[i])
                    .map(|i| rq[i])
                    .sum::<i64>()
                    <= *cap
            })
        }
        C::Clause(l) => l.iter().any(|(v, p)| (a[*v] == 1) == *p),
        C::Conj(l) => l.iter().all(|(v, p)| (a[*v] == 1) == *p),
    }
}
fn holds_r(c: &(C, R), a: &[i64]) -> bool {
    let h = holds(&c.0, a);
    match c.1 {
        R::Plain => h,
        R::Implied(r, p) => !((a[r] == 1) == p) || h,
        R::Reified(r, p) => ((a[r] == 1) == p) == h,
        R::Negated => !h,
    }
}
fn enumerate(m: &Model) -> BTreeSet<Vec<i64>> {
    let mut out = BTreeSet::new();
    let n = m.doms.len();
    let mut idx = vec![0usize; n];
    let mut a = vec![0i64; n];
    'outer: loop {
        for i in 0..n {
            a[i] = m.doms[i][idx[i]];
        }
        if m.cons.iter().all(|c| holds_r(c, &a)) {
            let _ = out.insert(a.clone());
        }
        let mut k = 0;
        loop {
            if k == n {
                break 'outer;
            }
            idx[k] += 1;
            if idx[k] < m.doms[k].len() {
                break;
            }
            idx[k] = 0;
            k += 1;
        }
    }
    out
}

fn gen_view(rng: &mut SmallRng, m: &Model, ints_only: bool) -> V {
    loop {
        let var = rng.gen_range(0..m.doms.len());
        if ints_only && m.is_bool[var] {
            continue;
        }
        let s = match rng.gen_range(0..10) {
            0..=5 => 1,
            6..=7 => -1,
            8 => 2,
            _ => -2,
        };
        let o = if rng.gen_range(0..4) == 0 { rng.gen_range(-2..3) } else { 0 };
        return V { var, s, o };
    }
}
fn gen_model(rng: &mut SmallRng, kinds: &str) -> Model {
    let nv = rng.gen_range(2..6);
    let nb = rng.gen_range(1..3);
    let mut m = Model { doms: vec![], is_bool: vec![], sparse: vec![], cons: vec![] };
    for _ in 0..nv {
        if rng.gen_range(0..4) == 0 {
            let mut d: Vec<i64> = (-3..6).filter(|_| rng.gen_range(0..2) == 0).collect();
            if d.is_empty() {
                d.push(rng.gen_range(-2..3));
            }
            m.doms.push(d);
            m.sparse.push(true);
        } else {
            let lo = rng.gen_range(-3..3);
            let hi = lo + rng.gen_range(0..5);
            m.doms.push((lo..=hi).collect());
            m.sparse.push(false);
        }
        m.is_bool.push(false);
    }
    for _ in 0..nb {
        m.doms.push(vec![0, 1]);
        m.is_bool.push(true);
        m.sparse.push(false);
    }
    let bools: Vec<usize> = (nv..nv + nb).collect();
    let nc = rng.gen_range(1..5);
    let kinds: Vec<&str> = kinds.split(',').collect();
    while m.cons.len() < nc {
        let k = kinds[rng.gen_range(0..kinds.len())];
        let n = rng.gen_range(1..4);
        let terms: Vec<V> = (0..n).map(|_| gen_view(rng, &m, false)).collect();
        let rhs = rng.gen_range(-4..7);
        let c = match k {
            "le" => C::LinLe(terms, rhs),
            "eq" => C::LinEq(terms, rhs),
            "ne" => C::LinNe(terms, rhs),
            "alldiff" => C::AllDiff((0..rng.gen_range(2..4)).map(|_| gen_view(rng, &m, false)).collect()),
            "times" => C::Times(gen_view(rng, &m, true), gen_view(rng, &m, true), gen_view(rng, &m, true)),
            "div" => {
                let d = gen_view(rng, &m, true);
                if m.doms[d.var].iter().any(|x| d.s * x + d.o == 0) {
                    continue;
                }
                C::Div(gen_view(rng, &m, true), d, gen_view(rng, &m, true))
            }
            "abs" => C::Abs(gen_view(rng, &m, true), gen_view(rng, &m, true)),
            "max" => C::Max((0..rng.gen_range(1..4)).map(|_| gen_view(rng, &m, true)).collect(), gen_view(rng, &m, true)),
            "min" => C::Min((0..rng.gen_range(1..4)).map(|_| gen_view(rng, &m, true)).collect(), gen_view(rng, &m, true)),
            "elem" => C::Elem(gen_view(rng, &m, true), (0..rng.gen_range(1..4)).map(|_| gen_view(rng, &m, true)).collect(), gen_view(rng, &m, true)),
            "cumul" => {
                let nt = rng.gen_range(1..4);
                let st: Vec<V> = (0..nt).map(|_| gen_view(rng, &m, true)).collect();
                C::Cumul(
                    st,
                    (0..nt).map(|_| rng.gen_range(0..4)).collect(),
                    (0..nt).map(|_| rng.gen_range(0..4)).collect(),
                    rng.gen_range(0..4),
                    rng.gen_range(0..144),
                )
            }
            "elemd" => {
                // element with pairwise distinct variables
                let mut pick: Vec<usize> = (0..m.doms.len()).filter(|&i| !m.is_bool[i]).collect();
                for i in 0..pick.len() { let j = rng.gen_range(0..pick.len()); pick.swap(i, j); }
                if pick.len() < 3 { m.cons.push((C::Clause(vec![(bools[0], true), (bools[0], false)]), R::Plain)); continue; }
                let na = rng.gen_range(1..=(pick.len() - 2).min(3));
                let mut vv = |v: usize, rng: &mut SmallRng| V { var: v, s: if rng.gen_range(0..4) == 0 { -1 } else { 1 }, o: if rng.gen_range(0..3) == 0 { rng.gen_range(-1..3) } else { 0 } };
                C::Elem(vv(pick[0], rng), (0..na).map(|k| vv(pick[2 + k], rng)).collect(), vv(pick[1], rng))
            }
            "cumulc" => {
                // canonical regime: distinct int vars with non-negative domains, scale 1, offset >= 0, dur>=1, 1<=req<=cap
                let ints: Vec<usize> = (0..m.doms.len()).filter(|&i| !m.is_bool[i] && m.doms[i][0] >= 0).collect();
                if ints.is_empty() { m.cons.push((C::Clause(vec![(bools[0], true), (bools[0], false)]), R::Plain)); continue; }
                let nt = rng.gen_range(1..=ints.len().min(4));
                let mut pick = ints.clone();
                for i in 0..pick.len() { let j = rng.gen_range(0..pick.len()); pick.swap(i, j); }
                let cap = rng.gen_range(1..4);
                let st: Vec<V> = pick[..nt].iter().map(|&v| V { var: v, s: 1, o: if rng.gen_range(0..3) == 0 { rng.gen_range(0..3) } else { 0 } }).collect();
                C::Cumul(st, (0..nt).map(|_| rng.gen_range(1..4)).collect(), (0..nt).map(|_| rng.gen_range(1..=cap)).collect(), cap, rng.gen_range(0..144))
            }
            "clause" => C::Clause((0..rng.gen_range(1..3)).map(|_| (bools[rng.gen_range(0..nb)], rng.gen_bool(0.5))).collect()),
            "conj" => C::Conj((0..rng.gen_range(1..3)).map(|_| (bools[rng.gen_range(0..nb)], rng.gen_bool(0.5))).collect()),
            _ => unreachable!(),
        };
        let negatable = matches!(c, C::LinLe(..) | C::LinEq(..) | C::LinNe(..) | C::Clause(..) | C::Conj(..));
        let r = match rng.gen_range(0..8) {
            0 | 1 => R::Implied(bools[rng.gen_range(0..nb)], rng.gen_bool(0.7)),
            2 if negatable => R::Reified(bools[rng.gen_range(0..nb)], rng.gen_bool(0.7)),
            3 if negatable => R::Negated,
            _ => R::Plain,
        };
        m.cons.push((c, r));
    }
    m
}

type AV = AffineView<DomainId>;
#[derive(Clone, Copy)]
enum X {
    I(DomainId),
    B(Literal),
}
fn mk(v: &V, xs: &[X]) -> AV {
    match xs[v.var] {
        X::I(d) => d.scaled(v.s as i32).offset(v.o as i32),
        X::B(l) => l.get_integer_variable().scaled(v.s as i32).offset(v.o as i32),
    }
}
fn cumul_opts(i: usize) -> CumulativeOptions {
    let methods = [
        CumulativePropagationMethod::TimeTablePerPoint,
        CumulativePropagationMethod::TimeTablePerPointIncremental,
        CumulativePropagationMethod::TimeTablePerPointIncrementalSynchronised,
        CumulativePropagationMethod::TimeTableOverInterval,
        CumulativePropagationMethod::TimeTableOverIntervalIncremental,
        CumulativePropagationMethod::TimeTableOverIntervalIncrementalSynchronised,
    ];
    let expl = [CumulativeExplanationType::Naive, CumulativeExplanationType::BigStep, CumulativeExplanationType::Pointwise];
    CumulativeOptions::new(i & 1 == 1, expl[(i / 2) % 3], (i / 6) & 1 == 1, methods[(i / 12) % 6], (i / 72) & 1 == 1)
}

fn post_one(s: &mut Solver, xs: &[X], c: &(C, R), tag: u32) -> Result<(), pumpkin_solver::ConstraintOperationError> {
    let lit = |v: usize, p: bool| {
        // literal over a 0-1 domain
        let X::B(l) = xs[v] else { panic!("not a bool") };
        if p { l } else { !l }
    };
    let t = NonZero::new(tag).unwrap();
    macro_rules! fin {
        ($c:expr) => {{
            let c = $c;
            match c.1 {
                R::Plain => s.add_constraint($c.0).with_tag(t).post(),
                R::Implied(r, p) => s.add_constraint($c.0).with_tag(t).implied_by(lit(r, p)),
                _ => unreachable!(),
            }
        }};
    }
    macro_rules! finn {
        ($cons:expr, $r:expr, $tagged:expr) => {{
            let cons = $cons;
            match $r {
                R::Plain => if $tagged { s.add_constraint(cons).with_tag(t).post() } else { s.add_constraint(cons).post() },
                R::Implied(r, p) => if $tagged { s.add_constraint(cons).with_tag(t).implied_by(lit(*r, *p)) } else { s.add_constraint(cons).implied_by(lit(*r, *p)) },
                R::Reified(r, p) => if $tagged { s.add_constraint(cons).with_tag(t).reify(lit(*r, *p)) } else { s.add_constraint(cons).reify(lit(*r, *p)) },
                R::Negated => if $tagged { s.add_constraint(cons.negation()).with_tag(t).post() } else { s.add_constraint(cons.negation()).post() },
            }
        }};
    }
    let _ = &fin_dummy;
    match &c.0 {
        C::LinLe(tm, r) => finn!(constraints::less_than_or_equals(tm.iter().map(|v| mk(v, xs)).collect::<Vec<_>>(), *r as i32), &c.1, true),
        C::LinEq(tm, r) => finn!(constraints::equals(tm.iter().map(|v| mk(v, xs)).collect::<Vec<_>>(), *r as i32), &c.1, true),
        C::LinNe(tm, r) => finn!(constraints::not_equals(tm.iter().map(|v| mk(v, xs)).collect::<Vec<_>>(), *r as i32), &c.1, true),
        C::Clause(l) => finn!(constraints::clause(l.iter().map(|(v, p)| lit(*v, *p)).collect::<Vec<_>>()), &c.1, false),
        C::Conj(l) => finn!(constraints::conjunction(l.iter().map(|(v, p)| lit(*v, *p)).collect::<Vec<_>>()), &c.1, false),
        C::AllDiff(tm) => fin!((constraints::all_different(tm.iter().map(|v| mk(v, xs)).collect::<Vec<_>>()), c.1.clone())),
        C::Times(x, y, z) => fin!((constraints::times(mk(x, xs), mk(y, xs), mk(z, xs)), c.1.clone())),
        C::Div(x, y, z) => fin!((constraints::division(mk(x, xs), mk(y, xs), mk(z, xs)), c.1.clone())),
        C::Abs(x, y) => fin!((constraints::absolute(mk(x, xs), mk(y, xs)), c.1.clone())),
        C::Max(tm, r) => fin!((constraints::maximum(tm.iter().map(|v| mk(v, xs)).collect::<Vec<_>>(), mk(r, xs)), c.1.clone())),
        C::Min(tm, r) => fin!((constraints::minimum(tm.iter().map(|v| mk(v, xs)).collect::<Vec<_>>(), mk(r, xs)), c.1.clone())),
        C::Elem(i, arr, r) => fin!((constraints::element(mk(i, xs), arr.iter().map(|v| mk(v, xs)).collect::<Vec<_>>(), mk(r, xs)), c.1.clone())),
        C::Cumul(st, du, rq, cap, o) => fin!((
            constraints::cumulative_with_options(
                st.iter().map(|v| mk(v, xs)).collect::<Vec<_>>(),
                du.iter().map(|d| *d as i32).collect::<Vec<_>>(),
                rq.iter().map(|d| *d as i32).collect::<Vec<_>>(),
                *cap as i32,
                cumul_opts(*o)
            ),
            c.1.clone()
        )),
    }
}
fn fin_dummy() {}

struct Budget(u64);
impl TerminationCondition for Budget {
    fn should_stop(&mut self) -> bool {
        if self.0 == 0 {
            true
        } else {
            self.0 -= 1;
            false
        }
    }
}

fn run(m: &Model, seed: u64) -> Result<BTreeSet<Vec<i64>>, String> {
    pumpkin_solver::verif::enable();
    let r = std::panic::catch_unwind(std::panic::AssertUnwindSafe(|| run_inner(m, seed)));
    let ev = pumpkin_solver::verif::drain();
    let mut bad_reasons = 0;
    for e in &ev {
        if let pumpkin_solver::verif::Event::Propagation { reason_held_before, name, predicate, reason, decision_level, .. } = e {
            if reason_held_before.iter().any(|b| !*b) {
                bad_reasons += 1;
                if std::env::var("SHOWEV").is_ok() && bad_reasons <= 3 {
                    println!("REASON-NOT-HELD {name} {predicate:?} <- {reason:?} held={reason_held_before:?} dl={decision_level}");
                }
            }
        }
    }
    match r {
        Ok(Ok(x)) => if bad_reasons > 0 { Err(format!("reason-not-held events={bad_reasons}")) } else { Ok(x) },
        Ok(Err(e)) => Err(e),
        Err(p) => {
            let msg = p.downcast_ref::<String>().cloned().or(p.downcast_ref::<&str>().map(|s| s.to_string())).unwrap_or_default();
            Err(format!("PANIC[{bad_reasons} bad reasons] {}", msg.chars().take(70).collect::<String>()))
        }
    }
}
fn run_inner(m: &Model, seed: u64) -> Result<BTreeSet<Vec<i64>>, String> {
    let mut o = SolverOptions::default();
    o.random_generator = SmallRng::seed_from_u64(seed);
    let mut s = Solver::with_options(o);
    let xs: Vec<X> = m
        .doms
        .iter()
        .enumerate()
        .map(|(i, d)| {
            if m.is_bool[i] {
                X::B(s.new_literal())
            } else if m.sparse[i] {
                X::I(s.new_sparse_integer(d.iter().map(|x| *x as i32).collect::<Vec<_>>()))
            } else {
                X::I(s.new_bounded_integer(d[0] as i32, *d.last().unwrap() as i32))
            }
        })
        .collect();
    for (i, c) in m.cons.iter().enumerate() {
        if post_one(&mut s, &xs, c, i as u32 + 1).is_err() {
            return Ok(BTreeSet::new());
        }
    }
    let mut b = s.default_brancher();
    let mut t = Budget(2_000_000);
    let mut out = BTreeSet::new();
    let mut it = s.get_solution_iterator(&mut b, &mut t);
    loop {
        match it.next_solution() {
            IteratedSolution::Solution(sol, _, _) => {
                let a: Vec<i64> = xs
                    .iter()
                    .map(|x| match x {
                        X::I(d) => sol.get_integer_value(*d) as i64,
                        X::B(l) => sol.get_literal_value(*l) as i64,
                    })
                    .collect();
                if !out.insert(a.clone()) {
                    return Err(format!("duplicate solution {a:?}"));
                }
            }
            IteratedSolution::Finished | IteratedSolution::Unsatisfiable => break,
            IteratedSolution::Unknown => return Err("budget exhausted".into()),
        }
    }
    Ok(out)
}

fn run_opt(m: &Model, seed: u64) -> Result<String, String> {
    use pumpkin_solver::optimisation::linear_sat_unsat::LinearSatUnsat;
    use pumpkin_solver::optimisation::linear_unsat_sat::LinearUnsatSat;
    use pumpkin_solver::optimisation::OptimisationDirection;
    use pumpkin_solver::results::OptimisationResult;
    use pumpkin_solver::results::SolutionReference;
    use pumpkin_solver::DefaultBrancher;
    let mut rng = SmallRng::seed_from_u64(seed ^ 0xABCDEF);
    let mut o = SolverOptions::default();
    o.random_generator = SmallRng::seed_from_u64(seed);
    let mut s = Solver::with_options(o);
    let xs: Vec<X> = m.doms.iter().enumerate().map(|(i, d)| {
        if m.is_bool[i] { X::B(s.new_literal()) } else if m.sparse[i] { X::I(s.new_sparse_integer(d.iter().map(|x| *x as i32).collect::<Vec<_>>())) } else { X::I(s.new_bounded_integer(d[0] as i32, *d.last().unwrap() as i32)) }
    }).collect();
    let mut infeasible = false;
    for (i, c) in m.cons.iter().enumerate() {
        if post_one(&mut s, &xs, c, i as u32 + 1).is_err() { infeasible = true; break; }
    }
    let expect = enumerate(m);
    let ov = gen_view(&mut rng, m, false);
    let maximise = rng.gen_bool(0.5);
    let unsat_sat = rng.gen_bool(0.5);
    let objs: Vec<i64> = expect.iter().map(|a| val(&ov, a)).collect();
    let best = if maximise { objs.iter().max().copied() } else { objs.iter().min().copied() };
    if infeasible { return if best.is_none() { Ok("ok".into()) } else { Err("post-infeasible-but-sat".into()) }; }
    let obj = mk(&ov, &xs);
    let dir = if maximise { OptimisationDirection::Maximise } else { OptimisationDirection::Minimise };
    let mut b = s.default_brancher();
    let cb: fn(&Solver, SolutionReference, &DefaultBrancher) = |_, _, _| {};
    let mut t = Budget(2_000_000);
    let res = if unsat_sat { s.optimise(&mut b, &mut t, LinearUnsatSat::new(dir, obj.clone(), cb)) } else { s.optimise(&mut b, &mut t, LinearSatUnsat::new(dir, obj.clone(), cb)) };
    let tag = format!("{}{}", if unsat_sat { "US" } else { "SU" }, if maximise { "max" } else { "min" });
    match res {
        OptimisationResult::Optimal(sol) => {
            let a: Vec<i64> = xs.iter().map(|x| match x { X::I(d) => sol.get_integer_value(*d) as i64, X::B(l) => sol.get_literal_value(*l) as i64 }).collect();
            if !expect.contains(&a) { return Err(format!("{tag} optimal-not-a-solution")); }
            if Some(val(&ov, &a)) != best { return Err(format!("{tag} wrong-optimum")); }
            Ok("ok".into())
        }
        OptimisationResult::Unsatisfiable => if best.is_none() { Ok("ok".into()) } else { Err(format!("{tag} unsat-but-sat")) },
        OptimisationResult::Satisfiable(_) | OptimisationResult::Unknown => Err(format!("{tag} budget")),
    }
}

fn main() {
    let kinds = std::env::args().nth(1).unwrap();
    let n: u64 = std::env::args().nth(2).unwrap().parse().unwrap();
    let start: u64 = std::env::args().nth(3).map(|s| s.parse().unwrap()).unwrap_or(0);
    if std::env::var("SHOWPANIC").is_err() { std::panic::set_hook(Box::new(|_| {})); }
    let mut bad = 0;
    let mut nontrivial = 0;
    let mut sigs: std::collections::BTreeMap<String, (u64, u64)> = Default::default();
    for seed in start..start + n {
        let mut rng = SmallRng::seed_from_u64(seed);
        let m = gen_model(&mut rng, &kinds);
        let expect = enumerate(&m);
        if expect.len() > 1 {
            nontrivial += 1;
        }
        if std::env::var("MODE").as_deref() == Ok("opt") {
            let got = std::panic::catch_unwind(|| run_opt(&m, seed));
            let sig = match got {
                Ok(Ok(_)) => continue,
                Ok(Err(e)) => format!("ERR {e}"),
                Err(p) => { let msg = p.downcast_ref::<String>().cloned().or(p.downcast_ref::<&str>().map(|s| s.to_string())).unwrap_or_default(); format!("PANIC {}", msg.chars().take(90).collect::<String>()) }
            };
            bad += 1;
            let e = sigs.entry(sig).or_insert((0, seed));
            e.0 += 1;
            continue;
        }
        let got = std::panic::catch_unwind(|| run(&m, seed));
        let sig = match got {
            Ok(Ok(g)) if g == expect => continue,
            Ok(Ok(g)) => {
                let missing = expect.difference(&g).count();
                let extra = g.difference(&expect).count();
                format!("MISMATCH missing={} extra={}", (missing > 0) as u8, (extra > 0) as u8)
            }
            Ok(Err(e)) => format!("ERR {}", e.chars().take(100).collect::<String>().split(" events=").next().unwrap().to_string()),
            Err(p) => {
                let msg = p.downcast_ref::<String>().cloned().or(p.downcast_ref::<&str>().map(|s| s.to_string())).unwrap_or_default();
                format!("PANIC {}", msg.chars().take(90).collect::<String>())
            }
        };
        bad += 1;
        let e = sigs.entry(sig).or_insert((0, seed));
        e.0 += 1;
    }
    println!("kinds={kinds} cases={n} nontrivial={nontrivial} bad={bad}");
    for (k, (c, s)) in sigs {
        println!("  {c:6}  first_seed={s}  {k}");
    }
    if let Some(seed) = std::env::args().nth(4) {
        let seed: u64 = seed.parse().unwrap();
        let mut rng = SmallRng::seed_from_u64(seed);
        let m = gen_model(&mut rng, &kinds);
        println!("{m:#?}");
        println!("expect {:?}", enumerate(&m));
        println!("got {:?}", run(&m, seed));
    }
}
