// Throw-away probe: random models -> Pumpkin iteration vs brute force. NOT the framework.
use std::collections::BTreeSet;
use std::num::NonZero;

use pumpkin_solver::constraints;
use pumpkin_solver::constraints::Constraint;
use pumpkin_solver::constraints::NegatableConstraint;
use pumpkin_solver::options::*;
use pumpkin_solver::results::solution_iterator::IteratedSolution;
use pumpkin_solver::results::ProblemSolution;
use pumpkin_solver::termination::TerminationCondition;
use pumpkin_solver::variables::*;
use pumpkin_solver::Solver;
use rand::rngs::SmallRng;
use rand::Rng;
use rand::SeedableRng;

#[derive(Clone, Debug)]
struct V {
    var: usize,
    s: i64,
    o: i64,
}
#[derive(Clone, Debug)]
enum C {
    LinLe(Vec<V>, i64),
    LinEq(Vec<V>, i64),
    LinNe(Vec<V>, i64),
    AllDiff(Vec<V>),
    Times(V, V, V),
    Div(V, V, V),
    Abs(V, V),
    Max(Vec<V>, V),
    Min(Vec<V>, V),
    Elem(V, Vec<V>, V),
    Cumul(Vec<V>, Vec<i64>, Vec<i64>, i64, usize),
    Clause(Vec<(usize, bool)>),
    Conj(Vec<(usize, bool)>),
}
#[derive(Clone, Debug)]
enum R {
    Plain,
    Implied(usize, bool),
    Reified(usize, bool),
    Negated,
}
#[derive(Clone, Debug)]
struct Model {
    doms: Vec<Vec<i64>>,
    is_bool: Vec<bool>,
    sparse: Vec<bool>,
    cons: Vec<(C, R)>,
}

fn val(v: &V, a: &[i64]) -> i64 {
    v.s * a[v.var] + v.o
}
fn holds(c: &C, a: &[i64]) -> bool {
    match c {
        C::LinLe(t, r) => t.iter().map(|v| val(v, a)).sum::<i64>() <= *r,
        C::LinEq(t, r) => t.iter().map(|v| val(v, a)).sum::<i64>() == *r,
        C::LinNe(t, r) => t.iter().map(|v| val(v, a)).sum::<i64>() != *r,
        C::AllDiff(t) => {
            let vs: Vec<i64> = t.iter().map(|v| val(v, a)).collect();
            (0..vs.len()).all(|i| (i + 1..vs.len()).all(|j| vs[i] != vs[j]))
        }
        C::Times(x, y, z) => val(x, a) * val(y, a) == val(z, a),
        C::Div(x, y, z) => {
            let d = val(y, a);
            d != 0 && val(x, a) / d == val(z, a)
        }
        C::Abs(x, y) => val(x, a).abs() == val(y, a),
        C::Max(t, r) => t.iter().map(|v| val(v, a)).max().unwrap() == val(r, a),
        C::Min(t, r) => t.iter().map(|v| val(v, a)).min().unwrap() == val(r, a),
        C::Elem(i, arr, r) => {
            let idx = val(i, a);
            idx >= 0 && (idx as usize) < arr.len() && val(&arr[idx as usize], a) == val(r, a)
        }
        C::Cumul(st, du, rq, cap, _) => {
            let s: Vec<i64> = st.iter().map(|v| val(v, a)).collect();
            let lo = *s.iter().min().unwrap();
            let hi = s.iter().zip(du).map(|(s, d)| s + d).max().unwrap();
            (lo..=hi).all(|t| {
                (0..s.len())
                    .filter(|&i| s[i] <= t && t < s[i] + du[i])
                    .map(|i| rq[i])
                    .sum::<i64>()
                    <= *cap
            })
        }
        C::Clause(l) => l.iter().any(|(v, p)| (a[*v] == 1) == *p),
        C::Conj(l) => l.iter().all(|(v, p)| (a[*v] == 1) == *p),
    }
}
fn holds_r(c: &(C, R), a: &[i64]) -> bool {
    let h = holds(&c.0, a);
    match c.1 {
        R::Plain => h,
        R::Implied(r, p) => !((a[r] == 1) == p) || h,
        R::Reified(r, p) => ((a[r] == 1) == p) == h,
        R::Negated => !h,
    }
}
fn enumerate(m: &Model) -> BTreeSet<Vec<i64>> {
    let mut out = BTreeSet::new();
    let n = m.doms.len();
    let mut idx = vec![0usize; n];
    let mut a = vec![0i64; n];
    'outer: loop {
        for i in 0..n {
            a[i] = m.doms[i][idx[i]];
        }
        if m.cons.iter().all(|c| holds_r(c, &a)) {
            let _ = out.insert(a.clone());
        }
        let mut k = 0;
        loop {
            if k == n {
                break 'outer;
            }
            idx[k] += 1;
            if idx[k] < m.doms[k].len() {
                break;
            }
            idx[k] = 0;
            k += 1;
        }
    }
    out
}

fn gen_view(rng: &mut SmallRng, m: &Model, ints_only: bool) -> V {
    loop {
        let var = rng.gen_range(0..m.doms.len());
        if ints_only && m.is_bool[var] {
            continue;
        }
        let big = std::env::var("BIG").is_ok();
        let s = match rng.gen_range(0..10) {
            0..=5 => 1,
            6..=7 => -1,
            8 => if big { [2, 3, 1000, 32768, 65536][rng.gen_range(0..5)] } else { 2 },
            _ => if big { -[2, 3, 1000, 32768, 65536][rng.gen_range(0..5)] } else { -2 },
        };
        let o = if rng.gen_range(0..4) == 0 { if big { [-(1i64 << 30), 1 << 30, 1 << 16, -3][rng.gen_range(0..4)] } else { rng.gen_range(-2..3) } } else { 0 };
        return V { var, s, o };
    }
}
fn gen_model(rng: &mut SmallRng, kinds: &str) -> Model {
    let nv = rng.gen_range(2..6);
    let nb = rng.gen_range(1..3);
    let mut m = Model { doms: vec![], is_bool: vec![], sparse: vec![], cons: vec![] };
    let big = std::env::var("BIG").is_ok();
    for _ in 0..nv {
        if big {
            let bases: [i64; 9] = [0, 1 << 15, -(1 << 15), 1 << 16, 46340, 1 << 30, -(1 << 30), (1 << 31) - 4, -(1 << 31) + 2];
            let lo = bases[rng.gen_range(0..bases.len())] + rng.gen_range(-1..2);
            let lo = lo.max(-(1i64 << 31) + 1);
            let hi = (lo + rng.gen_range(0..3)).min((1i64 << 31) - 1);
            m.doms.push((lo..=hi).collect());
            m.sparse.push(false);
            m.is_bool.push(false);
            continue;
        }
        if rng.gen_range(0..4) == 0 {
            let mut d: Vec<i64> = (-3..6).filter(|_| rng.gen_range(0..2) == 0).collect();
            if d.is_empty() {
                d.push(rng.gen_range(-2..3));
            }
            m.doms.push(d);
            m.sparse.push(true);
        } else {
            let lo = rng.gen_range(-3..3);
            let hi = lo + rng.gen_range(0..5);
            m.doms.push((lo..=hi).collect());
            m.sparse.push(false);
        }
        m.is_bool.push(false);
    }
    for _ in 0..nb {
        m.doms.push(vec![0, 1]);
        m.is_bool.push(true);
        m.sparse.push(false);
    }
    let bools: Vec<usize> = (nv..nv + nb).collect();
    let nc = rng.gen_range(1..5);
    let kinds: Vec<&str> = kinds.split(',').collect();
    while m.cons.len() < nc {
        let k = kinds[rng.gen_range(0..kinds.len())];
        let n = rng.gen_range(1..4);
        let terms: Vec<V> = (0..n).map(|_| gen_view(rng, &m, false)).collect();
        let rhs = if std::env::var("BIG").is_ok() { [0i64, 1 << 16, 1 << 30, -(1 << 30), (1 << 31) - 1, -(1 << 31) + 1, 5][rng.gen_range(0..7)] + rng.gen_range(-2..3) } else { rng.gen_range(-4..7) };
        let rhs = rhs.clamp(-(1i64 << 31) + 1, (1i64 << 31) - 1);
        let c = match k {
            "le" => C::LinLe(terms, rhs),
            "eq" => C::LinEq(terms, rhs),
            "ne" => C::LinNe(terms, rhs),
            "alldiff" => C::AllDiff((0..rng.gen_range(2..4)).map(|_| gen_view(rng, &m, false)).collect()),
            "times" => C::Times(gen_view(rng, &m, true), gen_view(rng, &m, true), gen_view(rng, &m, true)),
            "div" => {
                let d = gen_view(rng, &m, true);
                if m.doms[d.var].iter().any(|x| d.s * x + d.o == 0) {
                    continue;
                }
                C::Div(gen_view(rng, &m, true), d, gen_view(rng, &m, true))
            }
            "abs" => C::Abs(gen_view(rng, &m, true), gen_view(rng, &m, true)),
            "max" => C::Max((0..rng.gen_range(1..4)).map(|_| gen_view(rng, &m, true)).collect(), gen_view(rng, &m, true)),
            "min" => C::Min((0..rng.gen_range(1..4)).map(|_| gen_view(rng, &m, true)).collect(), gen_view(rng, &m, true)),
            "elem" => C::Elem(gen_view(rng, &m, true), (0..rng.gen_range(1..4)).map(|_| gen_view(rng, &m, true)).collect(), gen_view(rng, &m, true)),
            "cumul" => {
                let nt = rng.gen_range(1..4);
                let st: Vec<V> = (0..nt).map(|_| gen_view(rng, &m, true)).collect();
                C::Cumul(
                    st,
                    (0..nt).map(|_| rng.gen_range(0..4)).collect(),
                    (0..nt).map(|_| rng.gen_range(0..4)).collect(),
                    rng.gen_range(0..4),
                    rng.gen_range(0..144),
                )
            }
            "elemd" => {
                // element with pairwise distinct variables
                let mut pick: Vec<usize> = (0..m.doms.len()).filter(|&i| !m.is_bool[i]).collect();
                for i in 0..pick.len() { let j = rng.gen_range(0..pick.len()); pick.swap(i, j); }
                if pick.len() < 3 { m.cons.push((C::Clause(vec![(bools[0], true), (bools[0], false)]), R::Plain)); continue; }
                let na = rng.gen_range(1..=(pick.len() - 2).min(3));
                let mut vv = |v: usize, rng: &mut SmallRng| V { var: v, s: if rng.gen_range(0..4) == 0 { -1 } else { 1 }, o: if rng.gen_range(0..3) == 0 { rng.gen_range(-1..3) } else { 0 } };
                C::Elem(vv(pick[0], rng), (0..na).map(|k| vv(pick[2 + k], rng)).collect(), vv(pick[1], rng))
            }
            "cumulc" => {
                // canonical regime: distinct int vars with non-negative domains, scale 1, offset >= 0, dur>=1, 1<=req<=cap
                let ints: Vec<usize> = (0..m.doms.len()).filter(|&i| !m.is_bool[i] && m.doms[i][0] >= 0).collect();
                if ints.is_empty() { m.cons.push((C::Clause(vec![(bools[0], true), (bools[0], false)]), R::Plain)); continue; }
                let nt = rng.gen_range(1..=ints.len().min(4));
                let mut pick = ints.clone();
                for i in 0..pick.len() { let j = rng.gen_range(0..pick.len()); pick.swap(i, j); }
                let cap = rng.gen_range(1..4);
                let st: Vec<V> = pick[..nt].iter().map(|&v| V { var: v, s: 1, o: if rng.gen_range(0..3) == 0 { rng.gen_range(0..3) } else { 0 } }).collect();
                C::Cumul(st, (0..nt).map(|_| rng.gen_range(1..4)).collect(), (0..nt).map(|_| rng.gen_range(1..=cap)).collect(), cap, rng.gen_range(0..144))
            }
            "clause" => C::Clause((0..rng.gen_range(1..3)).map(|_| (bools[rng.gen_range(0..nb)], rng.gen_bool(0.5))).collect()),
            "conj" => C::Conj((0..rng.gen_range(1..3)).map(|_| (bools[rng.gen_range(0..nb)], rng.gen_bool(0.5))).collect()),
            _ => unreachable!(),
        };
        let negatable = matches!(c, C::LinLe(..) | C::LinEq(..) | C::LinNe(..) | C::Clause(..) | C::Conj(..));
        let r = match rng.gen_range(0..8) {
            0 | 1 => R::Implied(bools[rng.gen_range(0..nb)], rng.gen_bool(0.7)),
            2 if negatable => R::Reified(bools[rng.gen_range(0..nb)], rng.gen_bool(0.7)),
            3 if negatable => R::Negated,
            _ => R::Plain,
        };
        m.cons.push((c, r));
    }
    m
}

type AV = AffineView<DomainId>;
#[derive(Clone, Copy)]
enum X {
    I(DomainId),
    B(Literal),
}
fn mk(v: &V, xs: &[X]) -> AV {
    match xs[v.var] {
        X::I(d) => d.scaled(v.s as i32).offset(v.o as i32),
        X::B(l) => l.get_integer_variable().scaled(v.s as i32).offset(v.o as i32),
    }
}
fn cumul_opts(i: usize) -> CumulativeOptions {
    let methods = [
        CumulativePropagationMethod::TimeTablePerPoint,
        CumulativePropagationMethod::TimeTablePerPointIncremental,
        CumulativePropagationMethod::TimeTablePerPointIncrementalSynchronised,
        CumulativePropagationMethod::TimeTableOverInterval,
        CumulativePropagationMethod::TimeTableOverIntervalIncremental,
        CumulativePropagationMethod::TimeTableOverIntervalIncrementalSynchronised,
    ];
    let expl = [CumulativeExplanationType::Naive, CumulativeExplanationType::BigStep, CumulativeExplanationType::Pointwise];
    CumulativeOptions::new(i & 1 == 1, expl[(i / 2) % 3], (i / 6) & 1 == 1, methods[(i / 12) % 6], (i / 72) & 1 == 1)
}

fn post_one(s: &mut Solver, xs: &[X], c: &(C, R), tag: u32) -> Result<(), pumpkin_solver::ConstraintOperationError> {
    let lit = |v: usize, p: bool| {
        // literal over a 0-1 domain
        let X::B(l) = xs[v] else { panic!("not a bool") };
        if p { l } else { !l }
    };
    let t = NonZero::new(tag).unwrap();
    macro_rules! fin {
        ($c:expr) => {{
            let c = $c;
            match c.1 {
                R::Plain => s.add_constraint($c.0).with_tag(t).post(),
                R::Implied(r, p) => s.add_constraint($c.0).with_tag(t).implied_by(lit(r, p)),
                _ => unreachable!(),
            }
        }};
    }
    macro_rules! finn {
        ($cons:expr, $r:expr, $tagged:expr) => {{
            let cons = $cons;
            match $r {
                R::Plain => if $tagged { s.add_constraint(cons).with_tag(t).post() } else { s.add_constraint(cons).post() },
                R::Implied(r, p) => if $tagged { s.add_constraint(cons).with_tag(t).implied_by(lit(*r, *p)) } else { s.add_constraint(cons).implied_by(lit(*r, *p)) },
                R::Reified(r, p) => if $tagged { s.add_constraint(cons).with_tag(t).reify(lit(*r, *p)) } else { s.add_constraint(cons).reify(lit(*r, *p)) },
                R::Negated => if $tagged { s.add_constraint(cons.negation()).with_tag(t).post() } else { s.add_constraint(cons.negation()).post() },
            }
        }};
    }
    let _ = &fin_dummy;
    match &c.0 {
        C::LinLe(tm, r) => finn!(constraints::less_than_or_equals(tm.iter().map(|v| mk(v, xs)).collect::<Vec<_>>(), *r as i32), &c.1, true),
        C::LinEq(tm, r) => finn!(constraints::equals(tm.iter().map(|v| mk(v, xs)).collect::<Vec<_>>(), *r as i32), &c.1, true),
        C::LinNe(tm, r) => finn!(constraints::not_equals(tm.iter().map(|v| mk(v, xs)).collect::<Vec<_>>(), *r as i32), &c.1, true),
        C::Clause(l) => finn!(constraints::clause(l.iter().map(|(v, p)| lit(*v, *p)).collect::<Vec<_>>()), &c.1, false),
        C::Conj(l) => finn!(constraints::conjunction(l.iter().map(|(v, p)| lit(*v, *p)).collect::<Vec<_>>()), &c.1, false),
        C::AllDiff(tm) => fin!((constraints::all_different(tm.iter().map(|v| mk(v, xs)).collect::<Vec<_>>()), c.1.clone())),
        C::Times(x, y, z) => fin!((constraints::times(mk(x, xs), mk(y, xs), mk(z, xs)), c.1.clone())),
        C::Div(x, y, z) => fin!((constraints::division(mk(x, xs), mk(y, xs), mk(z, xs)), c.1.clone())),
        C::Abs(x, y) => fin!((constraints::absolute(mk(x, xs), mk(y, xs)), c.1.clone())),
        C::Max(tm, r) => fin!((constraints::maximum(tm.iter().map(|v| mk(v, xs)).collect::<Vec<_>>(), mk(r, xs)), c.1.clone())),
        C::Min(tm, r) => fin!((constraints::minimum(tm.iter().map(|v| mk(v, xs)).collect::<Vec<_>>(), mk(r, xs)), c.1.clone())),
        C::Elem(i, arr, r) => fin!((constraints::element(mk(i, xs), arr.iter().map(|v| mk(v, xs)).collect::<Vec<_>>(), mk(r, xs)), c.1.clone())),
        C::Cumul(st, du, rq, cap, o) => fin!((
            constraints::cumulative_with_options(
                st.iter().map(|v| mk(v, xs)).collect::<Vec<_>>(),
                du.iter().map(|d| *d as i32).collect::<Vec<_>>(),
                rq.iter().map(|d| *d as i32).collect::<Vec<_>>(),
                *cap as i32,
                cumul_opts(*o)
            ),
            c.1.clone()
        )),
    }
}
fn fin_dummy() {}

struct Budget(u64);
impl TerminationCondition for Budget {
    fn should_stop(&mut self) -> bool {
        if self.0 == 0 {
            true
        } else {
            self.0 -= 1;
            false
        }
    }
}

fn run(m: &Model, seed: u64) -> Result<BTreeSet<Vec<i64>>, String> {
    pumpkin_solver::verif::enable();
    let r = std::panic::catch_unwind(std::panic::AssertUnwindSafe(|| run_inner(m, seed)));
    let ev = pumpkin_solver::verif::drain();
    let mut bad_reasons = 0;
    let mut insufficient = 0;
    {
        use pumpkin_solver::predicates::Predicate as P;
        let pv = |p: &P| -> (usize, u8, i64) { match *p { P::LowerBound { domain_id, lower_bound } => (domain_id.id as usize - 1, 0, lower_bound as i64), P::UpperBound { domain_id, upper_bound } => (domain_id.id as usize - 1, 1, upper_bound as i64), P::Equal { domain_id, equality_constant } => (domain_id.id as usize - 1, 2, equality_constant as i64), P::NotEqual { domain_id, not_equal_constant } => (domain_id.id as usize - 1, 3, not_equal_constant as i64) } };
        let full: Vec<Vec<i64>> = { let pm = Model { doms: m.doms.clone(), is_bool: m.is_bool.clone(), sparse: m.sparse.clone(), cons: vec![] }; enumerate(&pm).into_iter().collect() };
        let mut checked = 0;
        for e in &ev {
            if let pumpkin_solver::verif::Event::Propagation { tag: Some(t), predicate, reason, .. } = e {
                if checked > 400 { break; }
                checked += 1;
                let c = &m.cons[*t as usize - 1];
                let pp = pv(predicate); let rs: Vec<_> = reason.iter().map(pv).collect();
                if full.iter().any(|a| holds_r(c, a) && rs.iter().all(|(i, k, v)| pred_holds(*k, *v, a[*i])) && !pred_holds(pp.1, pp.2, a[pp.0])) { insufficient += 1; }
            }
        }
    }
    for e in &ev {
        if let pumpkin_solver::verif::Event::Propagation { reason_held_before, name, predicate, reason, decision_level, .. } = e {
            if reason_held_before.iter().any(|b| !*b) {
                bad_reasons += 1;
                if std::env::var("SHOWEV").is_ok() && bad_reasons <= 3 {
                    println!("REASON-NOT-HELD {name} {predicate:?} <- {reason:?} held={reason_held_before:?} dl={decision_level}");
                }
            }
        }
    }
    match r {
        Ok(Ok(x)) => if insufficient > 0 { Err(format!("reason-insufficient events={insufficient}")) } else if bad_reasons > 0 { Err(format!("reason-not-held events={bad_reasons}")) } else { Ok(x) },
        Ok(Err(e)) => Err(e),
        Err(p) => {
            let msg = p.downcast_ref::<String>().cloned().or(p.downcast_ref::<&str>().map(|s| s.to_string())).unwrap_or_default();
            Err(format!("PANIC[{bad_reasons} bad reasons] {}", msg.chars().take(70).collect::<String>()))
        }
    }
}
fn run_inner(m: &Model, seed: u64) -> Result<BTreeSet<Vec<i64>>, String> {
    let mut o = SolverOptions::default();
    o.random_generator = SmallRng::seed_from_u64(seed);
    if std::env::var("CFG").is_ok() {
        let mut r = SmallRng::seed_from_u64(seed ^ 0x5555);
        if r.gen_range(0..4) == 0 { o.conflict_resolver = ConflictResolver::NoLearning; }
        o.learning_clause_minimisation = r.gen_bool(0.5);
        o.restart_options.min_num_conflicts_before_first_restart = r.gen_range(0..4);
        o.restart_options.base_interval = r.gen_range(1..6);
        o.restart_options.no_restarts = r.gen_range(0..5) == 0;
        match r.gen_range(0..3) { 0 => {}, 1 => { o.restart_options.sequence_generator_type = SequenceGeneratorType::Luby; }, _ => { o.restart_options.sequence_generator_type = SequenceGeneratorType::Geometric; o.restart_options.geometric_coef = Some(1.0 + r.gen_range(1..10) as f64 / 10.0); } }
        o.restart_options.lbd_coef = [0.5, 1.0, 1.25][r.gen_range(0..3)];
        o.restart_options.num_assigned_coef = [0.5, 1.4, 10.0][r.gen_range(0..3)];
        o.restart_options.num_assigned_window = r.gen_range(1..50);
        o.learning_options.limit_num_high_lbd_nogoods = r.gen_range(0..6);
        o.learning_options.lbd_threshold = r.gen_range(0..4);
        o.learning_options.nogood_sorting_strategy = if r.gen_bool(0.5) { LearnedNogoodSortingStrategy::Lbd } else { LearnedNogoodSortingStrategy::Activity };
        if r.gen_range(0..4) == 0 { o.learning_options.max_activity = 4.0; }
    }
    let cfg_desc = format!("res={:?} min={} rmin={} base={} norestart={} seq={:?} limit={} lbdthr={} maxact={}", o.conflict_resolver, o.learning_clause_minimisation, o.restart_options.min_num_conflicts_before_first_restart, o.restart_options.base_interval, o.restart_options.no_restarts, o.restart_options.sequence_generator_type, o.learning_options.limit_num_high_lbd_nogoods, o.learning_options.lbd_threshold, o.learning_options.max_activity);
    let mut s = Solver::with_options(o);
    let xs: Vec<X> = m
        .doms
        .iter()
        .enumerate()
        .map(|(i, d)| {
            if m.is_bool[i] {
                X::B(s.new_literal())
            } else if m.sparse[i] {
                X::I(s.new_sparse_integer(d.iter().map(|x| *x as i32).collect::<Vec<_>>()))
            } else {
                X::I(s.new_bounded_integer(d[0] as i32, *d.last().unwrap() as i32))
            }
        })
        .collect();
    for (i, c) in m.cons.iter().enumerate() {
        if post_one(&mut s, &xs, c, i as u32 + 1).is_err() {
            return Ok(BTreeSet::new());
        }
    }
    let mut b = s.default_brancher();
    let mut t = Budget(2_000_000);
    let mut out = BTreeSet::new();
    let mut it = s.get_solution_iterator(&mut b, &mut t);
    loop {
        match it.next_solution() {
            IteratedSolution::Solution(sol, _, _) => {
                let a: Vec<i64> = xs
                    .iter()
                    .map(|x| match x {
                        X::I(d) => sol.get_integer_value(*d) as i64,
                        X::B(l) => sol.get_literal_value(*l) as i64,
                    })
                    .collect();
                if !out.insert(a.clone()) {
                    return Err(format!("duplicate solution {a:?}"));
                }
            }
            IteratedSolution::Finished | IteratedSolution::Unsatisfiable => break,
            IteratedSolution::Unknown => { if std::env::var("SHOWCFG").is_ok() { println!("BUDGET {cfg_desc}"); } return Err("budget exhausted".into()) }
        }
    }
    Ok(out)
}

fn build(m: &Model, seed: u64, upto: usize) -> (Solver, Vec<X>, bool) {
    let mut o = SolverOptions::default();
    o.random_generator = SmallRng::seed_from_u64(seed);
    let mut s = Solver::with_options(o);
    let xs: Vec<X> = m.doms.iter().enumerate().map(|(i, d)| {
        if m.is_bool[i] { X::B(s.new_literal()) } else if m.sparse[i] { X::I(s.new_sparse_integer(d.iter().map(|x| *x as i32).collect::<Vec<_>>())) } else { X::I(s.new_bounded_integer(d[0] as i32, *d.last().unwrap() as i32)) }
    }).collect();
    let mut infeasible = false;
    for (i, c) in m.cons.iter().enumerate().take(upto) {
        if post_one(&mut s, &xs, c, i as u32 + 1).is_err() { infeasible = true; break; }
    }
    (s, xs, infeasible)
}
fn read(sol: &pumpkin_solver::results::Solution, xs: &[X]) -> Vec<i64> {
    xs.iter().map(|x| match x { X::I(d) => sol.get_integer_value(*d) as i64, X::B(l) => sol.get_literal_value(*l) as i64 }).collect()
}
fn run_bounds(m: &Model, seed: u64) -> Result<String, String> {
    // C12 probe: bounds after each posting prefix
    let mut prev: Option<Vec<(i64, i64)>> = None;
    for upto in 0..=m.cons.len() {
        let (s, xs, inf) = build(m, seed, upto);
        let pm = Model { doms: m.doms.clone(), is_bool: m.is_bool.clone(), sparse: m.sparse.clone(), cons: m.cons[..upto].to_vec() };
        let sols = enumerate(&pm);
        if inf { return if sols.is_empty() { Ok("ok".into()) } else { Err("post-err-but-sat".into()) }; }
        let mut cur = vec![];
        for (i, x) in xs.iter().enumerate() {
            let (lb, ub) = match x { X::I(d) => (s.lower_bound(d) as i64, s.upper_bound(d) as i64), X::B(l) => { let v = l.get_integer_variable(); (s.lower_bound(&v) as i64, s.upper_bound(&v) as i64) } };
            cur.push((lb, ub));
            if lb < m.doms[i][0] || ub > *m.doms[i].last().unwrap() { return Err("outside-declared".into()); }
            if !sols.is_empty() {
                let mn = sols.iter().map(|a| a[i]).min().unwrap(); let mx = sols.iter().map(|a| a[i]).max().unwrap();
                if lb > mn || ub < mx { return Err(format!("bound-excludes-solution")); }
            }
            if let X::B(l) = x { if let Some(b) = s.get_literal_value(*l) { if sols.iter().any(|a| (a[i] == 1) != b) { return Err("literal-value-wrong".into()); } } }
            // a view
            if let X::I(d) = x { let v = d.scaled(-2).offset(3); let (vl, vu) = (s.lower_bound(&v) as i64, s.upper_bound(&v) as i64); if !sols.is_empty() { let mn = sols.iter().map(|a| -2 * a[i] + 3).min().unwrap(); let mx = sols.iter().map(|a| -2 * a[i] + 3).max().unwrap(); if vl > mn || vu < mx { return Err("view-bound-excludes".into()); } } }
        }
        if let Some(p) = &prev { for (a, b) in p.iter().zip(&cur) { if b.0 < a.0 || b.1 > a.1 { return Err("not-monotone".into()); } } }
        prev = Some(cur);
    }
    Ok("ok".into())
}
fn gen_pred(rng: &mut SmallRng, m: &Model, xs: &[X]) -> (pumpkin_solver::predicates::Predicate, usize, u8, i64) {
    use pumpkin_solver::predicate;
    let i = rng.gen_range(0..m.doms.len());
    let (lo, hi) = if std::env::var("INDOM").is_ok() { (m.doms[i][0], *m.doms[i].last().unwrap()) } else { (m.doms[i][0] - 1, *m.doms[i].last().unwrap() + 1) };
    let v = rng.gen_range(lo..=hi);
    let d = match xs[i] { X::I(d) => d, X::B(l) => l.get_true_predicate().get_domain() };
    let k = rng.gen_range(0..4u8);
    let vv = v as i32;
    let p = match k { 0 => predicate!(d >= vv), 1 => predicate!(d <= vv), 2 => predicate!(d == vv), _ => predicate!(d != vv) };
    (p, i, k, v)
}
fn pred_holds(k: u8, v: i64, x: i64) -> bool { match k { 0 => x >= v, 1 => x <= v, 2 => x == v, _ => x != v } }
fn run_assume(m: &Model, seed: u64) -> Result<String, String> {
    use pumpkin_solver::results::SatisfactionResultUnderAssumptions as R2;
    use pumpkin_solver::results::SatisfactionResult;
    let (mut s, xs, inf) = build(m, seed, m.cons.len());
    let sols = enumerate(m);
    if inf { return if sols.is_empty() { Ok("ok".into()) } else { Err("post-err-but-sat".into()) }; }
    let mut rng = SmallRng::seed_from_u64(seed ^ 0x777);
    let mut b = s.default_brancher();
    for _round in 0..3 {
        let na = rng.gen_range(1..5);
        let ass: Vec<_> = (0..na).map(|_| gen_pred(&mut rng, m, &xs)).collect();
        let preds: Vec<_> = ass.iter().map(|a| a.0).collect();
        let under: Vec<&Vec<i64>> = sols.iter().filter(|a| ass.iter().all(|(_, i, k, v)| pred_holds(*k, *v, a[*i]))).collect();
        let mut t = Budget(2_000_000);
        {
        let r = s.satisfy_under_assumptions(&mut b, &mut t, &preds);
        match r {
            R2::Satisfiable(sol) => { let a = read(&sol, &xs); if !under.contains(&&a) { return Err("assump-sat-wrong".into()); } }
            R2::Unsatisfiable => { if !sols.is_empty() { return Err("unsat-but-model-sat".into()); } }
            R2::Unknown => return Err("budget".into()),
            R2::UnsatisfiableUnderAssumptions(mut u) => {
                if !under.is_empty() { return Err("unsat-under-assumptions-but-sat".into()); }
                let core = std::panic::catch_unwind(std::panic::AssertUnwindSafe(|| u.extract_core()));
                match core {
                    Err(p) => { let msg = p.downcast_ref::<String>().cloned().or(p.downcast_ref::<&str>().map(|s| s.to_string())).unwrap_or_default(); if !msg.contains("Conflicting assumptions") { return Err(format!("core-panic {}", msg.chars().take(60).collect::<String>())); } }
                    Ok(core) => {
                        // each core predicate implied by assumptions (over declared domains), and model+core unsat
                        let full: Vec<Vec<i64>> = { let pm = Model { doms: m.doms.clone(), is_bool: m.is_bool.clone(), sparse: m.sparse.clone(), cons: vec![] }; enumerate(&pm).into_iter().collect() };
                        let idx_of = |p: &pumpkin_solver::predicates::Predicate| -> (usize, u8, i64) {
                            use pumpkin_solver::predicates::Predicate as P;
                            let (d, k, v) = match *p { P::LowerBound { domain_id, lower_bound } => (domain_id, 0, lower_bound), P::UpperBound { domain_id, upper_bound } => (domain_id, 1, upper_bound), P::Equal { domain_id, equality_constant } => (domain_id, 2, equality_constant), P::NotEqual { domain_id, not_equal_constant } => (domain_id, 3, not_equal_constant) };
                            let i = xs.iter().position(|x| match x { X::I(dd) => *dd == d, X::B(l) => l.get_true_predicate().get_domain() == d }).unwrap();
                            (i, k, v as i64)
                        };
                        let cps: Vec<_> = core.iter().map(idx_of).collect();
                        for a in &full {
                            if ass.iter().all(|(_, i, k, v)| pred_holds(*k, *v, a[*i])) && !cps.iter().all(|(i, k, v)| pred_holds(*k, *v, a[*i])) { return Err("core-not-implied-by-assumptions".into()); }
                        }
                        if sols.iter().any(|a| cps.iter().all(|(i, k, v)| pred_holds(*k, *v, a[*i]))) { return Err("core-consistent-with-model".into()); }
                    }
                }
            }
        }
        }
        let mut t = Budget(2_000_000);
        match s.satisfy(&mut b, &mut t) {
            SatisfactionResult::Satisfiable(sol) => { if !sols.contains(&read(&sol, &xs)) { return Err("after: non-solution".into()); } }
            SatisfactionResult::Unsatisfiable => { if !sols.is_empty() { return Err("after: unsat-but-sat".into()); } }
            SatisfactionResult::Unknown => return Err("after: budget".into()),
        }
    }
    Ok("ok".into())
}
struct StopAt { polls: std::rc::Rc<std::cell::Cell<u64>>, at: Option<u64>, fired: bool }
impl TerminationCondition for StopAt {
    fn should_stop(&mut self) -> bool {
        let p = self.polls.get(); self.polls.set(p + 1);
        if !self.fired && self.at == Some(p) { self.fired = true; return true; }
        p > 3_000_000
    }
}
fn iterate_with(m: &Model, seed: u64, at: Option<u64>) -> Result<(BTreeSet<Vec<i64>>, u64, u64), String> {
    let (mut s, xs, inf) = build(m, seed, m.cons.len());
    if inf { return Ok((BTreeSet::new(), 0, 0)); }
    let polls = std::rc::Rc::new(std::cell::Cell::new(0));
    let mut t = StopAt { polls: polls.clone(), at, fired: false };
    let mut b = s.default_brancher();
    let mut out = BTreeSet::new();
    let mut unknowns = 0;
    let mut it = s.get_solution_iterator(&mut b, &mut t);
    loop {
        match it.next_solution() {
            IteratedSolution::Solution(sol, _, _) => { if !out.insert(read(&sol, &xs)) { return Err("dup".into()); } }
            IteratedSolution::Finished | IteratedSolution::Unsatisfiable => break,
            IteratedSolution::Unknown => { unknowns += 1; if unknowns > 1 { return Err("budget".into()); } }
        }
    }
    Ok((out, polls.get(), unknowns))
}
fn run_interrupt(m: &Model, seed: u64) -> Result<String, String> {
    let sols = enumerate(m);
    let (a, n1, _) = iterate_with(m, seed, None)?;
    let (_, n2, _) = iterate_with(m, seed, None)?;
    if n1 != n2 { return Err("poll-count-not-deterministic".into()); }
    if a != sols { return Err("baseline-mismatch".into()); }
    let stride = (n1 / 60).max(1);
    let mut k = 0;
    while k < n1 {
        let (b, _, u) = iterate_with(m, seed, Some(k)).map_err(|e| format!("k: {e}"))?;
        if b != sols { return Err(format!("after-interrupt-mismatch missing={} extra={}", sols.difference(&b).count() > 0, b.difference(&sols).count() > 0)); }
        if u != 1 { return Err("interrupt-not-reported".into()); }
        k += stride;
    }
    Ok("ok".into())
}

fn run_history(m: &Model, seed: u64) -> Result<String, String> {
    use pumpkin_solver::results::SatisfactionResult;
    use pumpkin_solver::results::SatisfactionResultUnderAssumptions as R2;
    let (mut s, xs, _) = build(m, seed, 0);
    let mut rng = SmallRng::seed_from_u64(seed ^ 0x1234);
    let mut posted = 0usize;
    let mut infeasible = false;
    let mut blocked: BTreeSet<Vec<i64>> = BTreeSet::new();
    let mut trace = vec![];
    let cur = |posted: usize, blocked: &BTreeSet<Vec<i64>>| -> BTreeSet<Vec<i64>> {
        let pm = Model { doms: m.doms.clone(), is_bool: m.is_bool.clone(), sparse: m.sparse.clone(), cons: m.cons[..posted].to_vec() };
        enumerate(&pm).difference(blocked).cloned().collect()
    };
    for _step in 0..10 {
        let op = rng.gen_range(0..5);
        match op {
            0 if posted < m.cons.len() => {
                let r = post_one(&mut s, &xs, &m.cons[posted], posted as u32 + 1);
                posted += 1;
                trace.push(format!("post{}={}", posted, r.is_ok()));
                let sols = cur(posted, &blocked);
                if r.is_err() { if !sols.is_empty() { return Err(format!("post-err-but-sat [{}]", trace.join(" "))); } infeasible = true; }
                else if infeasible { return Err(format!("post-ok-after-infeasible [{}]", trace.join(" "))); }
            }
            1 | 0 => {
                let sols = cur(posted, &blocked);
                let mut b = s.default_brancher();
                let mut t = Budget(2_000_000);
                match s.satisfy(&mut b, &mut t) {
                    SatisfactionResult::Satisfiable(sol) => { trace.push("sat".into()); if !sols.contains(&read(&sol, &xs)) { return Err(format!("satisfy: non-solution-or-blocked [{}]", trace.join(" "))); } }
                    SatisfactionResult::Unsatisfiable => { trace.push("unsat".into()); if !sols.is_empty() { return Err(format!("satisfy: unsat-but-sat [{}]", trace.join(" "))); } }
                    SatisfactionResult::Unknown => return Err("budget".into()),
                }
            }
            2 => {
                let sols = cur(posted, &blocked);
                let na = rng.gen_range(1..3);
                let ass: Vec<_> = (0..na).map(|_| gen_pred(&mut rng, m, &xs)).collect();
                let preds: Vec<_> = ass.iter().map(|a| a.0).collect();
                let under: Vec<&Vec<i64>> = sols.iter().filter(|a| ass.iter().all(|(_, i, k, v)| pred_holds(*k, *v, a[*i]))).collect();
                let mut b = s.default_brancher();
                let mut t = Budget(2_000_000);
                match s.satisfy_under_assumptions(&mut b, &mut t, &preds) {
                    R2::Satisfiable(sol) => { trace.push("asat".into()); if !under.contains(&&read(&sol, &xs)) { return Err(format!("assume: wrong-sat [{}]", trace.join(" "))); } }
                    R2::Unsatisfiable => { trace.push("aunsat".into()); if !sols.is_empty() { return Err(format!("assume: unsat-but-sat [{}]", trace.join(" "))); } }
                    R2::UnsatisfiableUnderAssumptions(_) => { trace.push("aunsatass".into()); if !under.is_empty() { return Err(format!("assume: unsat-under-but-sat [{}]", trace.join(" "))); } }
                    R2::Unknown => return Err("budget".into()),
                };
            }
            _ => {
                let sols = cur(posted, &blocked);
                let k = rng.gen_range(1..4);
                let mut b = s.default_brancher();
                let mut t = Budget(2_000_000);
                let mut yielded: Vec<Vec<i64>> = vec![];
                let mut finished = false;
                {
                    let mut it = s.get_solution_iterator(&mut b, &mut t);
                    for _ in 0..k {
                        match it.next_solution() {
                            IteratedSolution::Solution(sol, _, _) => { let a = read(&sol, &xs); if !sols.contains(&a) || yielded.contains(&a) { return Err(format!("iterate: bad-solution [{}]", trace.join(" "))); } yielded.push(a); }
                            IteratedSolution::Finished => { finished = true; if yielded.len() != sols.len() { return Err(format!("iterate: finished-early [{}]", trace.join(" "))); } break; }
                            IteratedSolution::Unsatisfiable => { finished = true; if !sols.is_empty() { return Err(format!("iterate: unsat-but-sat [{}]", trace.join(" "))); } break; }
                            IteratedSolution::Unknown => return Err("budget".into()),
                        }
                    }
                }
                trace.push(format!("iter{}{}", yielded.len(), if finished { "F" } else { "" }));
                let n = yielded.len();
                for (i, a) in yielded.into_iter().enumerate() { if finished || i + 1 < n { let _ = blocked.insert(a); } }
                if finished && n > 0 { infeasible = true; }
            }
        }
    }
    Ok("ok".into())
}

struct Chk<B> { inner: B, vars: Vec<DomainId>, bad: std::rc::Rc<std::cell::RefCell<Vec<String>>>, decisions: u64 }
impl<B: pumpkin_solver::branching::Brancher> pumpkin_solver::branching::Brancher for Chk<B> {
    fn next_decision(&mut self, c: &mut pumpkin_solver::branching::SelectionContext) -> Option<pumpkin_solver::predicates::Predicate> {
        let d = self.inner.next_decision(c);
        match d {
            Some(p) => {
                self.decisions += 1;
                if c.is_predicate_assigned(p) { self.bad.borrow_mut().push(format!("assigned-decision")); }
                if !self.vars.contains(&p.get_domain()) { self.bad.borrow_mut().push("foreign-variable".into()); }
            }
            None => { if self.vars.iter().any(|v| !c.is_integer_fixed(*v)) { self.bad.borrow_mut().push("none-with-unfixed".into()); } }
        }
        d
    }
    fn on_conflict(&mut self) { self.inner.on_conflict() }
    fn on_backtrack(&mut self) { self.inner.on_backtrack() }
    fn on_solution(&mut self, s: pumpkin_solver::results::SolutionReference) { self.inner.on_solution(s) }
    fn on_unassign_integer(&mut self, v: DomainId, x: i32) { self.inner.on_unassign_integer(v, x) }
    fn on_appearance_in_conflict_predicate(&mut self, p: pumpkin_solver::predicates::Predicate) { self.inner.on_appearance_in_conflict_predicate(p) }
    fn on_restart(&mut self) { self.inner.on_restart() }
    fn is_restart_pointless(&mut self) -> bool { self.inner.is_restart_pointless() }
    fn subscribe_to_events(&self) -> Vec<pumpkin_solver::branching::BrancherEvent> { self.inner.subscribe_to_events() }
}
fn run_branch(m: &Model, seed: u64) -> Result<String, String> {
    use pumpkin_solver::branching::branchers::independent_variable_value_brancher::IndependentVariableValueBrancher as IVV;
    use pumpkin_solver::branching::value_selection::*;
    use pumpkin_solver::branching::variable_selection::*;
    let sols = enumerate(m);
    let vi = (seed % 10) as usize; let wi = ((seed / 10) % 14) as usize;
    let (mut s, xs, inf) = build(m, seed, m.cons.len());
    if inf { return Ok("ok".into()); }
    let vars: Vec<DomainId> = xs.iter().map(|x| match x { X::I(d) => *d, X::B(l) => l.get_true_predicate().get_domain() }).collect();
    let occ: Vec<u32> = vars.iter().map(|_| 1 + (seed % 3) as u32).collect();
    let vs: Box<dyn VariableSelector<DomainId>> = match vi {
        0 => Box::new(AntiFirstFail::new(&vars)), 1 => Box::new(FirstFail::new(&vars)), 2 => Box::new(InputOrder::new(&vars)), 3 => Box::new(Largest::new(&vars)),
        4 => Box::new(MaxRegret::new(&vars)), 5 => Box::new(FirstFail::new(&vars)), 6 => Box::new(Occurrence::new(&vars, &occ)),
        7 => Box::new(ProportionalDomainSize::new(&vars)), 8 => Box::new(RandomSelector::new(vars.clone())), _ => Box::new(Smallest::new(&vars)),
    };
    let ws: Box<dyn ValueSelector<DomainId>> = match wi {
        0 => Box::new(InDomainInterval), 1 => Box::new(InDomainMax), 2 => Box::new(InDomainMedian), 3 => Box::new(InDomainMiddle), 4 => Box::new(InDomainMin), 5 => Box::new(InDomainRandom),
        6 => Box::new(InDomainSplit), 7 => Box::new(InDomainSplitRandom), 8 => Box::new(OutDomainMax), 9 => Box::new(OutDomainMedian), 10 => Box::new(OutDomainMin), 11 => Box::new(OutDomainRandom),
        12 => Box::new(RandomSplitter), _ => Box::new(ReverseInDomainSplit),
    };
    let bad = std::rc::Rc::new(std::cell::RefCell::new(vec![]));
    let mut b = Chk { inner: IVV::new(DynamicVariableSelector::new(vs), DynamicValueSelector::new(ws)), vars: vars.clone(), bad: bad.clone(), decisions: 0 };
    let mut t = Budget(2_000_000);
    let mut out = BTreeSet::new();
    {
        let mut it = s.get_solution_iterator(&mut b, &mut t);
        loop {
            match it.next_solution() {
                IteratedSolution::Solution(sol, _, _) => { let _ = out.insert(read(&sol, &xs)); }
                IteratedSolution::Finished | IteratedSolution::Unsatisfiable => break,
                IteratedSolution::Unknown => return Err(format!("v{vi} w{wi} budget")),
            }
        }
    }
    if let Some(e) = bad.borrow().first() { return Err(format!("v{vi} w{wi} {e}")); }
    if out != sols { return Err(format!("v{vi} w{wi} set-mismatch")); }
    Ok("ok".into())
}

fn run_opt(m: &Model, seed: u64) -> Result<String, String> {
    use pumpkin_solver::optimisation::linear_sat_unsat::LinearSatUnsat;
    use pumpkin_solver::optimisation::linear_unsat_sat::LinearUnsatSat;
    use pumpkin_solver::optimisation::OptimisationDirection;
    use pumpkin_solver::results::OptimisationResult;
    use pumpkin_solver::results::SolutionReference;
    use pumpkin_solver::DefaultBrancher;
    let mut rng = SmallRng::seed_from_u64(seed ^ 0xABCDEF);
    let mut o = SolverOptions::default();
    o.random_generator = SmallRng::seed_from_u64(seed);
    let mut s = Solver::with_options(o);
    let xs: Vec<X> = m.doms.iter().enumerate().map(|(i, d)| {
        if m.is_bool[i] { X::B(s.new_literal()) } else if m.sparse[i] { X::I(s.new_sparse_integer(d.iter().map(|x| *x as i32).collect::<Vec<_>>())) } else { X::I(s.new_bounded_integer(d[0] as i32, *d.last().unwrap() as i32)) }
    }).collect();
    let mut infeasible = false;
    for (i, c) in m.cons.iter().enumerate() {
        if post_one(&mut s, &xs, c, i as u32 + 1).is_err() { infeasible = true; break; }
    }
    let expect = enumerate(m);
    let ov = gen_view(&mut rng, m, false);
    let maximise = rng.gen_bool(0.5);
    let unsat_sat = rng.gen_bool(0.5);
    let objs: Vec<i64> = expect.iter().map(|a| val(&ov, a)).collect();
    let best = if maximise { objs.iter().max().copied() } else { objs.iter().min().copied() };
    if infeasible { return if best.is_none() { Ok("ok".into()) } else { Err("post-infeasible-but-sat".into()) }; }
    let obj = mk(&ov, &xs);
    let dir = if maximise { OptimisationDirection::Maximise } else { OptimisationDirection::Minimise };
    let mut b = s.default_brancher();
    let cb: fn(&Solver, SolutionReference, &DefaultBrancher) = |_, _, _| {};
    let mut t = Budget(2_000_000);
    let res = if unsat_sat { s.optimise(&mut b, &mut t, LinearUnsatSat::new(dir, obj.clone(), cb)) } else { s.optimise(&mut b, &mut t, LinearSatUnsat::new(dir, obj.clone(), cb)) };
    let tag = format!("{}{}", if unsat_sat { "US" } else { "SU" }, if maximise { "max" } else { "min" });
    match res {
        OptimisationResult::Optimal(sol) => {
            let a: Vec<i64> = xs.iter().map(|x| match x { X::I(d) => sol.get_integer_value(*d) as i64, X::B(l) => sol.get_literal_value(*l) as i64 }).collect();
            if !expect.contains(&a) { return Err(format!("{tag} optimal-not-a-solution")); }
            if Some(val(&ov, &a)) != best { return Err(format!("{tag} wrong-optimum")); }
            Ok("ok".into())
        }
        OptimisationResult::Unsatisfiable => if best.is_none() { Ok("ok".into()) } else { Err(format!("{tag} unsat-but-sat")) },
        OptimisationResult::Satisfiable(_) | OptimisationResult::Unknown => Err(format!("{tag} budget")),
    }
}

fn main() {
    let kinds = std::env::args().nth(1).unwrap();
    let n: u64 = std::env::args().nth(2).unwrap().parse().unwrap();
    let start: u64 = std::env::args().nth(3).map(|s| s.parse().unwrap()).unwrap_or(0);
    if std::env::var("SHOWPANIC").is_err() { std::panic::set_hook(Box::new(|_| {})); }
    let mut bad = 0;
    let mut nontrivial = 0;
    let mut sigs: std::collections::BTreeMap<String, (u64, u64)> = Default::default();
    for seed in start..start + n {
        let mut rng = SmallRng::seed_from_u64(seed);
        let m = gen_model(&mut rng, &kinds);
        let expect = enumerate(&m);
        if expect.len() > 1 {
            nontrivial += 1;
        }
        if let Ok(mode) = std::env::var("MODE") {
            let got = std::panic::catch_unwind(|| match mode.as_str() { "opt" => run_opt(&m, seed), "bounds" => run_bounds(&m, seed), "assume" => run_assume(&m, seed), "interrupt" => run_interrupt(&m, seed), "history" => run_history(&m, seed), "branch" => run_branch(&m, seed), _ => panic!("mode") });
            let sig = match got {
                Ok(Ok(_)) => continue,
                Ok(Err(e)) => format!("ERR {}", e.split(" [").next().unwrap()),
                Err(p) => { let msg = p.downcast_ref::<String>().cloned().or(p.downcast_ref::<&str>().map(|s| s.to_string())).unwrap_or_default(); format!("PANIC {}", msg.chars().take(90).collect::<String>()) }
            };
            bad += 1;
            let e = sigs.entry(sig).or_insert((0, seed));
            e.0 += 1;
            continue;
        }
        let got = std::panic::catch_unwind(|| run(&m, seed));
        let sig = match got {
            Ok(Ok(g)) if g == expect => continue,
            Ok(Ok(g)) => {
                let missing = expect.difference(&g).count();
                let extra = g.difference(&expect).count();
                format!("MISMATCH missing={} extra={}", (missing > 0) as u8, (extra > 0) as u8)
            }
            Ok(Err(e)) => format!("ERR {}", e.chars().take(100).collect::<String>().split(" events=").next().unwrap().to_string()),
            Err(p) => {
                let msg = p.downcast_ref::<String>().cloned().or(p.downcast_ref::<&str>().map(|s| s.to_string())).unwrap_or_default();
                format!("PANIC {}", msg.chars().take(90).collect::<String>())
            }
        };
        bad += 1;
        let e = sigs.entry(sig).or_insert((0, seed));
        e.0 += 1;
    }
    println!("kinds={kinds} cases={n} nontrivial={nontrivial} bad={bad}");
    for (k, (c, s)) in sigs {
        println!("  {c:6}  first_seed={s}  {k}");
    }
    if let Some(seed) = std::env::args().nth(4) {
        let seed: u64 = seed.parse().unwrap();
        let mut rng = SmallRng::seed_from_u64(seed);
        let m = gen_model(&mut rng, &kinds);
        println!("{m:#?}");
        println!("expect {:?}", enumerate(&m));
        println!("got {:?}", run(&m, seed));
    }
}
