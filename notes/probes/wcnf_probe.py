import random, subprocess, itertools, sys, os, collections
P='/tmp/scratch/cli-target/release/pumpkin-solver'
random.seed(int(sys.argv[1])); N=int(sys.argv[2]); uniform = len(sys.argv)>3 and sys.argv[3]=='uniform'
sig=collections.Counter(); first={}
for i in range(N):
    n=random.randint(1,6); TOP=1000
    hard=[]; soft=[]
    for _ in range(random.randint(0,6)):
        k=random.choice([1,1,2,2,3])
        hard.append([random.choice([-1,1])*random.randint(1,n) for _ in range(k)])
    for _ in range(random.randint(0,7)):
        k=random.choice([0,1,1,1,2,2,3]) if not uniform else random.choice([1,1,2,3])
        w=1 if uniform else random.randint(1,9)
        soft.append((w,[random.choice([-1,1])*random.randint(1,n) for _ in range(k)]))
    items=[('h',c) for c in hard]+[('s',c) for c in soft]; random.shuffle(items)
    path=f'/tmp/scratch/cnf/w{i%16}.wcnf'
    with open(path,'w') as f:
        f.write(f'p wcnf {n} {len(items)} {TOP}\n')
        for t,c in items:
            if t=='h': f.write(' '.join(map(str,[TOP]+c+[0]))+'\n')
            else: f.write(' '.join(map(str,[c[0]]+c[1]+[0]))+'\n')
    best=None
    for bits in itertools.product([False,True], repeat=n):
        if all(any(bits[abs(l)-1]==(l>0) for l in c) for c in hard):
            cost=sum(w for w,c in soft if not any(bits[abs(l)-1]==(l>0) for l in c))
            best=cost if best is None else min(best,cost)
    for enc in ['generalized-totalizer','cardinality-network']:
        try:
            r=subprocess.run([P,path,'--upper-bound-encoding',enc],capture_output=True,text=True,timeout=10)
            out=r.stdout; err=r.stderr
        except subprocess.TimeoutExpired:
            s=f'{enc}: TIMEOUT'; sig[s]+=1; first.setdefault(s,open(path).read()); continue
        os_=[int(l.split()[1]) for l in out.splitlines() if l.startswith('o ')]
        if 's OPTIMUM FOUND' in out:
            v=[int(x) for l in out.splitlines() if l.startswith('v ') for x in l[2:].split()]
            a={abs(x):x>0 for x in v}
            okh=len(a)==n and all(any(a[abs(l)]==(l>0) for l in c) for c in hard)
            cost=sum(w for w,c in soft if not any(a.get(abs(l))==(l>0) for l in c)) if len(a)==n else None
            if best is None: s=f'{enc}: OPT-but-hard-unsat'
            elif not okh: s=f'{enc}: model-violates-hard'
            elif not os_ or os_[-1]!=best: s=f'{enc}: wrong-o (last o != optimum)'
            elif cost!=best: s=f'{enc}: model-cost != optimum'
            else: continue
        elif 's UNSATISFIABLE' in out:
            if best is None: continue
            s=f'{enc}: UNSAT-but-sat'
        else:
            msg=[l for l in err.splitlines() if 'panicked' in l or 'overflow' in l]
            nxt=err.splitlines()[err.splitlines().index(msg[0])+1][:80] if msg else ''
            s=f'{enc}: CRASH rc={r.returncode} {msg[0][-70:] if msg else out[-80:]} | {nxt}'
        sig[s]+=1; first.setdefault(s,open(path).read())
for s,c in sig.most_common(): print(c,s); print('   first:',first[s].replace('\n',' / ')[:200])
print('cases',N)
