use std::num::NonZero;
use pumpkin_solver::constraints;
use pumpkin_solver::options::*;
use pumpkin_solver::proof::*;
use pumpkin_solver::results::*;
use pumpkin_solver::termination::Indefinite;
use pumpkin_solver::variables::*;
use pumpkin_solver::Solver;

struct Rng(u64);
impl Rng {
    fn next(&mut self) -> u64 { self.0 ^= self.0 << 13; self.0 ^= self.0 >> 7; self.0 ^= self.0 << 17; self.0 }
    fn below(&mut self, n: u64) -> u64 { self.next() % n }
    fn range(&mut self, lo: i32, hi: i32) -> i32 { lo + self.below((hi - lo + 1) as u64) as i32 }
}

fn main() {
    let out = std::env::args().nth(1).unwrap();
    let mode = std::env::args().nth(2).unwrap();
    let count: u64 = std::env::args().nth(3).unwrap().parse().unwrap();
    let (inf, hints) = match mode.as_str() { "scaffold" => (false,false), "full" => (true,false), _ => (true,true) };
    let mut made = 0; let mut panics = 0;
    let mut seed = 1u64;
    while made < count {
        seed += 1;
        let r = std::panic::catch_unwind(std::panic::AssertUnwindSafe(|| {
        let mut rng = Rng(seed.wrapping_mul(0x9E3779B97F4A7C15) | 1);
        let path = format!("{out}/p{made}.drcp");
        let mut o = SolverOptions::default();
        o.proof_log = ProofLog::cp(std::path::Path::new(&path), Format::Text, inf, hints).unwrap();
        o.learning_clause_minimisation = rng.below(2) == 0;
        let mut s = Solver::with_options(o);
        let nv = rng.range(5, 9) as usize;
        let mut doms = vec![];
        let xs: Vec<DomainId> = (0..nv).map(|i| {
            if rng.below(4) == 0 {
                let mut vals: Vec<i32> = (-2..5).filter(|_| rng.below(2) == 0).collect();
                if vals.is_empty() { vals.push(1); }
                doms.push(vals.clone());
                s.new_named_sparse_integer(vals, format!("x{i}"))
            } else {
                let lo = rng.range(-2, 1); let hi = lo + rng.range(2, 5);
                doms.push((lo..=hi).collect());
                s.new_named_bounded_integer(lo, hi, format!("x{i}"))
            }
        }).collect();
        let mut tag = 0u32;
        let nc = rng.range(5, 11);
        let mut ok = true;
        let mut desc = vec![];
        for _ in 0..nc {
            tag += 1;
            let t = NonZero::new(tag).unwrap();
            let k = rng.range(2, 3.min(nv as i32)) as usize;
            let mut idxs: Vec<usize> = (0..nv).collect();
            for i in 0..nv { let j = rng.below(nv as u64) as usize; idxs.swap(i, j); }
            let vs: Vec<DomainId> = idxs[..k].iter().map(|&i| xs[i]).collect();
            let terms: Vec<AffineView<DomainId>> = vs.iter().map(|v| v.scaled({ let c = rng.range(-2, 2); if c == 0 { 1 } else { c } })).collect();
            let rhs = rng.range(-3, 5);
            let r = match rng.below(8) {
                0 => { desc.push(format!("leq {terms:?} {rhs}")); s.add_constraint(constraints::less_than_or_equals(terms, rhs)).with_tag(t).post() }
                1 => { desc.push(format!("eq {terms:?} {rhs}")); s.add_constraint(constraints::equals(terms, rhs)).with_tag(t).post() }
                2 => { desc.push(format!("ne {terms:?} {rhs}")); s.add_constraint(constraints::not_equals(terms, rhs)).with_tag(t).post() }
                3 => { desc.push(format!("alldiff {vs:?}")); s.add_constraint(constraints::all_different(vs.clone())).with_tag(t).post() }
                4 if nv >= 3 => { desc.push("times".into()); s.add_constraint(constraints::times(xs[idxs[0]], xs[idxs[1]], xs[idxs[2]])).with_tag(t).post() }
                5 if nv >= 4 => { desc.push("element".into()); s.add_constraint(constraints::element(xs[idxs[0]], vec![xs[idxs[1]], xs[idxs[2]]], xs[idxs[3]])).with_tag(t).post() }
                6 if nv >= 3 => { desc.push("max".into()); s.add_constraint(constraints::maximum(vec![xs[idxs[0]], xs[idxs[1]]], xs[idxs[2]])).with_tag(t).post() }
                _ => { desc.push("abs".into()); s.add_constraint(constraints::absolute(xs[idxs[0]], xs[idxs[1]])).with_tag(t).post() }
            };
            if r.is_err() { ok = false; break; }
        }
        let unsat = if ok {
            let mut b = s.default_brancher();
            matches!(s.satisfy(&mut b, &mut Indefinite), SatisfactionResult::Unsatisfiable)
        } else { true };
        drop(s);
        if !unsat { return false; }
        {
            let d = doms.iter().enumerate().map(|(i, v)| format!("x{i} {}", v.iter().map(|x| x.to_string()).collect::<Vec<_>>().join(" "))).collect::<Vec<_>>().join("\n");
            std::fs::write(format!("{out}/p{made}.dom"), d).unwrap();
            std::fs::write(format!("{out}/p{made}.desc"), desc.join("\n")).unwrap();
        }
        true
        }));
        match r { Ok(true) => made += 1, Ok(false) => {}, Err(_) => { panics += 1; } }
    }
    println!("made {made} proofs, last seed {seed}, panics {panics}");
}
