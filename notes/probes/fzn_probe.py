# Throw-away probe: random FlatZinc models vs brute force (NOT the framework).
import random, subprocess, itertools, sys, re, collections
P = '/tmp/scratch/cli-target/release/pumpkin-solver'
random.seed(int(sys.argv[1])); N = int(sys.argv[2])
only = sys.argv[3].split(',') if len(sys.argv) > 3 else None

def tdiv(a, b):
    q = abs(a) // abs(b)
    return q if (a >= 0) == (b > 0) else -q

class M:
    pass

def gen():
    m = M(); m.ints = {}; m.bools = []; m.cons = []; m.text = []
    ni = random.randint(2, 4); nb = random.randint(1, 3)
    for i in range(ni):
        name = f'x{i}'
        if random.random() < 0.25:
            vals = sorted(random.sample(range(-3, 6), random.randint(1, 4)))
            m.ints[name] = vals; m.text.append(f"var {{{','.join(map(str, vals))}}}: {name} :: output_var;")
        else:
            lo = random.randint(-3, 2); hi = lo + random.randint(0, 4)
            m.ints[name] = list(range(lo, hi + 1)); m.text.append(f"var {lo}..{hi}: {name} :: output_var;")
    for i in range(nb):
        m.bools.append(f'b{i}'); m.text.append(f"var bool: b{i} :: output_var;")
    iv = list(m.ints); bv = m.bools
    def I(): return random.choice(iv)
    def B(): return random.choice(bv)
    def ic():  # int var or constant
        return random.choice(iv) if random.random() < 0.8 else str(random.randint(-2, 4))
    kinds = ['int_lin_le', 'int_lin_eq', 'int_lin_ne', 'int_lin_le_reif', 'int_lin_eq_reif', 'int_lin_ne_reif',
             'int_eq', 'int_ne', 'int_le', 'int_lt', 'int_eq_reif', 'int_ne_reif', 'int_le_reif', 'int_lt_reif',
             'int_plus', 'int_times', 'int_div', 'int_abs', 'int_min', 'int_max', 'array_int_minimum', 'array_int_maximum',
             'array_var_int_element', 'array_int_element', 'pumpkin_all_different', 'array_bool_and', 'array_bool_or',
             'bool_clause', 'bool_eq', 'bool_eq_reif', 'bool_not', 'bool2int', 'bool_lin_eq', 'bool_lin_le',
             'pumpkin_bool_xor', 'pumpkin_bool_xor_reif', 'set_in', 'set_in_reif_i', 'set_in_reif_s', 'array_bool_element',
             'array_var_bool_element', 'pumpkin_cumulative']
    if only: kinds = only
    for _ in range(random.randint(1, 3)):
        k = random.choice(kinds)
        if k.startswith('int_lin'):
            n = random.randint(1, 3); ws = [random.choice([-2, -1, 1, 2, 3]) for _ in range(n)]; vs = [I() for _ in range(n)]; rhs = random.randint(-4, 6)
            args = f"[{','.join(map(str, ws))}], [{','.join(vs)}], {rhs}"
            base = k.replace('_reif', '')
            op = {'int_lin_le': lambda s, rhs=rhs: s <= rhs, 'int_lin_eq': lambda s, rhs=rhs: s == rhs, 'int_lin_ne': lambda s, rhs=rhs: s != rhs}[base]
            f = (lambda ws, vs, op: lambda a: op(sum(w * a[v] for w, v in zip(ws, vs))))(ws, vs, op)
            if k.endswith('_reif'):
                r = B(); m.text.append(f"constraint {k}({args}, {r});"); m.cons.append((lambda f, r: lambda a: a[r] == f(a))(f, r))
            else:
                m.text.append(f"constraint {k}({args});"); m.cons.append(f)
        elif k in ('int_eq', 'int_ne', 'int_le', 'int_lt', 'int_eq_reif', 'int_ne_reif', 'int_le_reif', 'int_lt_reif'):
            x, y = I(), I(); base = k.replace('_reif', '')
            op = {'int_eq': lambda p, q: p == q, 'int_ne': lambda p, q: p != q, 'int_le': lambda p, q: p <= q, 'int_lt': lambda p, q: p < q}[base]
            f = (lambda x, y, op: lambda a: op(a[x], a[y]))(x, y, op)
            if k.endswith('_reif'):
                r = B(); m.text.append(f"constraint {k}({x}, {y}, {r});"); m.cons.append((lambda f, r: lambda a: a[r] == f(a))(f, r))
            else:
                m.text.append(f"constraint {k}({x}, {y});"); m.cons.append(f)
        elif k in ('int_plus', 'int_times', 'int_min', 'int_max'):
            x, y, z = I(), I(), I(); m.text.append(f"constraint {k}({x}, {y}, {z});")
            op = {'int_plus': lambda p, q: p + q, 'int_times': lambda p, q: p * q, 'int_min': min, 'int_max': max}[k]
            m.cons.append((lambda x, y, z, op: lambda a: op(a[x], a[y]) == a[z])(x, y, z, op))
        elif k == 'int_div':
            x, z = I(), I(); ys = [v for v in iv if 0 not in m.ints[v]]
            if not ys: continue
            y = random.choice(ys); m.text.append(f"constraint int_div({x}, {y}, {z});")
            m.cons.append((lambda x, y, z: lambda a: tdiv(a[x], a[y]) == a[z])(x, y, z))
        elif k == 'int_abs':
            x, y = I(), I(); m.text.append(f"constraint int_abs({x}, {y});"); m.cons.append((lambda x, y: lambda a: abs(a[x]) == a[y])(x, y))
        elif k in ('array_int_minimum', 'array_int_maximum'):
            r = I(); vs = [I() for _ in range(random.randint(1, 3))]; m.text.append(f"constraint {k}({r}, [{','.join(vs)}]);")
            op = min if k.endswith('minimum') else max
            m.cons.append((lambda r, vs, op: lambda a: op(a[v] for v in vs) == a[r])(r, vs, op))
        elif k in ('array_var_int_element', 'array_int_element'):
            i, r = I(), I(); n = random.randint(1, 3)
            if k == 'array_int_element':
                arr = [str(random.randint(-2, 4)) for _ in range(n)]
            else:
                arr = [ic() for _ in range(n)]
            m.text.append(f"constraint {k}({i}, [{','.join(arr)}], {r});")
            m.cons.append((lambda i, arr, r: lambda a: 1 <= a[i] <= len(arr) and (a[arr[a[i] - 1]] if arr[a[i] - 1] in a else int(arr[a[i] - 1])) == a[r])(i, arr, r))
        elif k == 'pumpkin_all_different':
            vs = [I() for _ in range(random.randint(2, 3))]; m.text.append(f"constraint pumpkin_all_different([{','.join(vs)}]);")
            m.cons.append((lambda vs: lambda a: len({a[v] for v in vs}) == len(vs) if len(set(vs)) == len(vs) else False if True else None)(vs) if len(set(vs)) == len(vs) else (lambda a: False))
        elif k in ('array_bool_and', 'array_bool_or'):
            bs = [B() for _ in range(random.randint(1, 3))]; r = B(); m.text.append(f"constraint {k}([{','.join(bs)}], {r});")
            op = all if k.endswith('and') else any
            m.cons.append((lambda bs, r, op: lambda a: a[r] == op(a[b] for b in bs))(bs, r, op))
        elif k == 'bool_clause':
            ps = [B() for _ in range(random.randint(0, 2))]; ns = [B() for _ in range(random.randint(0, 2))]
            m.text.append(f"constraint bool_clause([{','.join(ps)}], [{','.join(ns)}]);")
            m.cons.append((lambda ps, ns: lambda a: any(a[p] for p in ps) or any(not a[n] for n in ns))(ps, ns))
        elif k in ('bool_eq', 'bool_not', 'pumpkin_bool_xor'):
            x, y = B(), B(); m.text.append(f"constraint {k}({x}, {y});")
            m.cons.append((lambda x, y, eq: lambda a: (a[x] == a[y]) == eq)(x, y, k == 'bool_eq'))
        elif k in ('bool_eq_reif', 'pumpkin_bool_xor_reif'):
            x, y, r = B(), B(), B(); m.text.append(f"constraint {k}({x}, {y}, {r});")
            m.cons.append((lambda x, y, r, eq: lambda a: a[r] == ((a[x] == a[y]) == eq))(x, y, r, k == 'bool_eq_reif'))
        elif k == 'bool2int':
            b, x = B(), I(); m.text.append(f"constraint bool2int({b}, {x});"); m.cons.append((lambda b, x: lambda a: int(a[b]) == a[x])(b, x))
        elif k in ('bool_lin_eq', 'bool_lin_le'):
            n = random.randint(1, 3); ws = [random.choice([-2, -1, 1, 2]) for _ in range(n)]; bs = [B() for _ in range(n)]
            if k == 'bool_lin_eq':
                r = I(); m.text.append(f"constraint bool_lin_eq([{','.join(map(str, ws))}], [{','.join(bs)}], {r});")
                m.cons.append((lambda ws, bs, r: lambda a: sum(w * int(a[b]) for w, b in zip(ws, bs)) == a[r])(ws, bs, r))
            else:
                c = random.randint(-2, 3); m.text.append(f"constraint bool_lin_le([{','.join(map(str, ws))}], [{','.join(bs)}], {c});")
                m.cons.append((lambda ws, bs, c: lambda a: sum(w * int(a[b]) for w, b in zip(ws, bs)) <= c)(ws, bs, c))
        elif k == 'set_in':
            x = I()
            if random.random() < 0.5:
                lo = random.randint(-2, 2); hi = lo + random.randint(0, 3); m.text.append(f"constraint set_in({x}, {lo}..{hi});"); S = set(range(lo, hi + 1))
            else:
                S = set(random.sample(range(-3, 6), random.randint(1, 4))); m.text.append(f"constraint set_in({x}, {{{','.join(map(str, sorted(S)))}}});")
            m.cons.append((lambda x, S: lambda a: a[x] in S)(x, S))
        elif k in ('set_in_reif_i', 'set_in_reif_s'):
            x, r = I(), B()
            if k.endswith('_i'):
                lo = random.randint(-2, 2); hi = lo + random.randint(0, 3); m.text.append(f"constraint set_in_reif({x}, {lo}..{hi}, {r});"); S = set(range(lo, hi + 1))
            else:
                S = set(random.sample(range(-3, 6), random.randint(1, 4))); m.text.append(f"constraint set_in_reif({x}, {{{','.join(map(str, sorted(S)))}}}, {r});")
            m.cons.append((lambda x, S, r: lambda a: a[r] == (a[x] in S))(x, S, r))
        elif k in ('array_bool_element', 'array_var_bool_element'):
            i, r = I(), B(); n = random.randint(1, 3)
            arr = [random.choice(['true', 'false']) for _ in range(n)] if k == 'array_bool_element' else [B() for _ in range(n)]
            m.text.append(f"constraint {k}({i}, [{','.join(arr)}], {r});")
            m.cons.append((lambda i, arr, r: lambda a: 1 <= a[i] <= len(arr) and (a[arr[a[i] - 1]] if arr[a[i] - 1] in a else arr[a[i] - 1] == 'true') == a[r])(i, arr, r))
        elif k == 'pumpkin_cumulative':
            cand = [v for v in iv if m.ints[v][0] >= 0]
            if not cand: continue
            n = random.randint(1, min(3, len(cand))); vs = random.sample(cand, n); cap = random.randint(1, 3)
            du = [random.randint(1, 3) for _ in range(n)]; rq = [random.randint(1, cap) for _ in range(n)]
            m.text.append(f"constraint pumpkin_cumulative([{','.join(vs)}], [{','.join(map(str, du))}], [{','.join(map(str, rq))}], {cap});")
            m.cons.append((lambda vs, du, rq, cap: lambda a: all(sum(rq[j] for j in range(len(vs)) if a[vs[j]] <= t < a[vs[j]] + du[j]) <= cap for t in range(0, 12)))(vs, du, rq, cap))
    m.text.append("solve satisfy;")
    return m

def brute(m):
    names = list(m.ints) + m.bools
    doms = [m.ints[v] for v in m.ints] + [[False, True]] * len(m.bools)
    out = set()
    for vals in itertools.product(*doms):
        a = dict(zip(names, vals))
        try:
            ok = all(c(a) for c in m.cons)
        except Exception as e:
            raise
        if ok: out.add(tuple(vals))
    return names, out

sig = collections.Counter(); first = {}
for i in range(N):
    m = gen(); path = f'/tmp/scratch/cnf/f{i % 16}.fzn'
    open(path, 'w').write('\n'.join(m.text) + '\n')
    names, exp = brute(m)
    try:
        r = subprocess.run([P, path, '-a'], capture_output=True, text=True, timeout=20)
    except subprocess.TimeoutExpired:
        s = 'TIMEOUT'; sig[s] += 1; first.setdefault(s, '\n'.join(m.text)); continue
    out = r.stdout
    got = set(); cur = {}
    for line in out.splitlines():
        mm = re.match(r'(\w+) = (-?\d+|true|false);', line)
        if mm: cur[mm.group(1)] = (mm.group(2) == 'true') if mm.group(2) in ('true', 'false') else int(mm.group(2))
        elif line.startswith('----------'):
            got.add(tuple(cur[n] for n in names)); cur = {}
    if r.returncode != 0 or 'panicked' in r.stderr:
        msg = [l for l in (r.stderr + out).splitlines() if 'panicked' in l or 'error' in l.lower()]
        nxt = ''
        if msg and 'panicked' in msg[0]:
            ls = r.stderr.splitlines(); nxt = ls[ls.index(msg[0]) + 1][:70] if ls.index(msg[0]) + 1 < len(ls) else ''
        s = f'CRASH rc={r.returncode} {(msg[0][-60:] if msg else "")} | {nxt}'
    elif '=====UNSATISFIABLE=====' in out:
        if not exp: continue
        s = 'UNSAT-but-sat'
    elif '==========' not in out:
        s = 'no-completeness-line'
    elif got != exp:
        s = f'SET-MISMATCH missing={len(exp - got) > 0} extra={len(got - exp) > 0}'
    else:
        continue
    kind = ','.join(sorted({re.match(r'constraint (\w+)', t).group(1) for t in m.text if t.startswith('constraint')}))
    sig[s] += 1; first.setdefault(s, '\n'.join(m.text))
for s, c in sig.most_common():
    print(c, s); print('   first:', first[s].replace('\n', ' | ')[:400])
print('cases', N)
