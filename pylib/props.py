"""Per-property check definitions."""
import json
import os
import time

import orch
from orch import Agg, log

LIB_ASSUMPTIONS = [
    "reference semantics (harness/src/model.rs: i128 evaluator + brute-force enumerator) transcribes the documented meaning of each constraint",
    "verdicts come from the release-profile harness build of /repo's working tree with --cfg pumpkin_verif (hooks only observe)",
    "cases are small (search space <= ~6e4 assignments) so that ground truth is enumerable; held-on-what-was-run, not a proof",
]

NOT_CLAIMED = {}

# property -> definition
PROPS = {
    "C01": dict(kind="lib", level="exploration", modes=[("c01", 4000, 60000)], floor=500,
                rule="seeded random models (2-7 variables incl. literals, sparse/negative domains, views, every constraint kind, half/full reification) x random SolverOptions x random brancher x one of 5 result paths (satisfy, iterator, assumptions, both optimisers with callbacks); non-trivial = the run handed out >=1 solution and had >=1 conflict or non-root propagation; distinct = distinct (model, sub-seed) fingerprints"),
    "C02": dict(kind="lib", level="exploration", modes=[("c02", 4000, 60000)], floor=500,
                rule="seeded random models biased to the phase transition; verdict of satisfy vs enumerator, post-time errors vs prefix model, every Learned hook event vs the solution set, poll budget; non-trivial = >=1 conflict or non-root propagation"),
    "C03": dict(kind="lib", level="exploration", modes=[("c03", 3000, 40000)], floor=500,
                rule="seeded random models; full iteration (35% of cases: iterator dropped after k solutions and a new one started) compared with the enumerator's solution set; non-trivial = >=2 solutions or >=1 conflict"),
    "C04": dict(kind="lib", level="exploration", modes=[("c04", 3000, 40000)], floor=500,
                rule="seeded random models x objective view x min/max x both procedures; Optimal value vs brute-force optimum, callbacks checked; non-trivial = >=2 solutions or >=1 conflict"),
    "C05": dict(kind="lib", level="exploration", modes=[("c05", 2500, 30000)], floor=400,
                rule="seeded random models x 2-6 assumption lists per solver (all predicate kinds, duplicates, implied, directly contradictory, out-of-domain constants); verdict/core/restoration judged against the enumerator; non-trivial = >=2 solutions or >=1 conflict"),
    "C12": dict(kind="lib", level="exploration", modes=[("c12", 4000, 60000)], floor=500,
                rule="seeded random models; after every posting prefix the reported bounds of every variable, 3 random views and literal values are compared with the hull of the prefix model's solutions; non-trivial = some prefix tightened a bound"),
}


def counts(spec, tier):
    return [(m, q if tier == "quick" else t) for (m, q, t) in spec["modes"]]


def run(prop, tier, seed):
    spec = PROPS[prop]
    if spec["kind"] == "lib":
        return run_lib(prop, spec, tier, seed)
    raise SystemExit("unknown kind")


def run_lib(prop, spec, tier, seed):
    bt = orch.build_harness()
    agg = Agg(prop, tier, seed, spec["level"])
    agg.extra["build_s"] = round(bt, 1)
    findings = orch.load_findings(prop)
    agg.replay_findings(findings)
    case_timeout = spec.get("case_timeout", 20)
    for mode, count in counts(spec, tier):
        results, incidents, truncated = orch.run_pool(mode, seed, tier, count, case_timeout)
        agg.add_results(mode, results, findings)
        agg.handle_incidents(mode, seed, tier, incidents, findings, case_timeout)
        if truncated:
            agg.notes.append("mode %s truncated by deadline" % mode)
    for fid in sorted(agg.known_hits):
        f = next(f for f in findings if f["id"] == fid)
        agg.print_known(f)
    return agg.finish(spec["rule"], spec["floor"] if tier == "quick" else spec["floor"], LIB_ASSUMPTIONS,
                      exhaustive=spec.get("exhaustive"))


def replay(prop, path):
    spec = PROPS[prop]
    data = json.load(open(path))
    if spec["kind"] == "lib":
        orch.build_harness()
        mode = data.get("mode") or spec["modes"][0][0]
        st, res = orch.run_case_file(mode, path, 120, data.get("extra_args", []))
        if st != "ok" and (res is None or res.get("status") != "fail"):
            log("replay: %s" % st)
            log("VIOLATION property=%s replay=%s" % (prop, path))
            return 1
        log(json.dumps({k: res.get(k) for k in ("status", "kind", "detail", "classes", "config")}, indent=1))
        if res["status"] == "fail":
            log("VIOLATION property=%s replay=%s" % (prop, path))
            return 1
        log("replay: case passes on this tree")
        return 0
    raise SystemExit("unknown kind")
