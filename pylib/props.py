"""Per-property check definitions."""
import json
import os
import time

import orch
from orch import Agg, log

LIB_ASSUMPTIONS = [
    "reference semantics (harness/src/model.rs: i128 evaluator + brute-force enumerator) transcribes the documented meaning of each constraint",
    "verdicts come from the release-profile harness build of /repo's working tree with --cfg pumpkin_verif (hooks only observe)",
    "cases are small (search space <= ~6e4 assignments) so that ground truth is enumerable; held-on-what-was-run, not a proof",
]

NOT_CLAIMED = {}

# property -> definition
PROPS = {
    "C01": dict(kind="lib", level="exploration", modes=[("c01", 12000, 180000)], floor=500,
                rule="seeded random models (2-7 variables incl. literals, sparse/negative domains, views, every constraint kind, half/full reification) x random SolverOptions x random brancher x one of 5 result paths (satisfy, iterator, assumptions, both optimisers with callbacks); non-trivial = the run handed out >=1 solution and had >=1 conflict or non-root propagation; distinct = distinct (model, sub-seed) fingerprints"),
    "C02": dict(kind="lib", level="exploration", modes=[("c02", 12000, 180000)], floor=500,
                rule="seeded random models biased to the phase transition, 5% deep-chain models (0-1 implication chain of 507-540 links with clauses over variables planted 495-505 links apart, solved under 4 learning configurations); verdict of satisfy vs enumerator, post-time errors vs prefix model, every Learned hook event vs the solution set, poll budget; non-trivial = >=1 conflict or non-root propagation"),
    "C03": dict(kind="lib", level="exploration", modes=[("c03", 8000, 120000)], floor=500,
                rule="seeded random models; full iteration (35% of cases: iterator dropped after k solutions and a new one started) compared with the enumerator's solution set; non-trivial = >=2 solutions or >=1 conflict"),
    "C04": dict(kind="lib", level="exploration", modes=[("c04", 8000, 120000)], floor=500,
                rule="seeded random models x objective view x min/max x both procedures; Optimal value vs brute-force optimum, callbacks checked; non-trivial = >=2 solutions or >=1 conflict"),
    "C05": dict(kind="lib", level="exploration", modes=[("c05", 8000, 90000)], floor=400,
                rule="seeded random models x 2-6 assumption lists per solver (all predicate kinds, duplicates, implied, directly contradictory, out-of-domain constants); verdict/core/restoration judged against the enumerator; non-trivial = >=2 solutions or >=1 conflict"),
    "C12": dict(kind="lib", level="exploration", modes=[("c12", 12000, 180000)], floor=500,
                rule="seeded random models; after every posting prefix the reported bounds of every variable, 3 random views and literal values are compared with the hull of the prefix model's solutions; in three shapes: all variables first, variables created only just before the first constraint that mentions them, and the latter with solves between the postings (satisfy, satisfy interrupted after 0-19 polls, satisfy under 1-2 assumptions) after which the bounds are read and compared again; non-trivial = some prefix tightened a bound"),
    "C07": dict(kind="lib", level="exploration", modes=[("c07", 3000, 36000)], floor=150, case_timeout=90,
                rule="seeded models near the phase transition, each solved under K configurations (quick 8, thorough 40: resolver, minimisation, restart sequence/intervals/coefficients, learned-nogood limits/threshold/sorting, tiny max activity, seed, brancher); solution set of every configuration compared with the enumerator; 10% deep-chain models (implication chain of 507-540 links) on which every configuration answers satisfiability and the optimum of a counting variable (fresh solver or the one that has just answered satisfy); non-trivial = some configuration had >=3 conflicts"),
    "C08": dict(kind="lib", level="exploration", modes=[("c08", 5400, 7200)], floor=900, case_timeout=10,
                rule="cumulative models (70% canonical, 30% extended regime: zero durations/usages, usage > capacity, negative starts, scaled views, repeated variables, holes) with side constraints; quick: 6 option tuples per model walking the 144-tuple space with stride 37 so that a run covers all 144, thorough: all 144 per model; solution set vs time-point definition, explanation judge on every cumulative event; non-trivial = >=2 solutions or cumulative events observed"),
    "C09": dict(kind="lib", level="exploration", modes=[("c09", 12600, 126000)], floor=500,
                rule="one constraint of each of 21 kinds posted as implied_by / reify / negation with the literal free, true or false at posting time, plus side constraints; input-order branchers over random permutations with random value selectors, and the default brancher; solution set vs (r -> c), (r <-> c), complement; non-trivial = >=2 solutions or >=1 conflict"),
    "C17": dict(kind="lib", level="exploration", modes=[("c17", 12000, 120000)], floor=500, case_timeout=10,
                rule="seeded random models with every constraint tagged (1/4 arithmetic over sign-mixed domains, 1/8 cumulative models with 2-3 disjoint full profiles and wide tasks that are cut at several profiles in one pass); hook events Propagation / Conflict / AnalysisReason judged for sufficiency against the tagged constraint's tuple table (untagged nogood events against the model's solution set) and for truth in the state in which the reason is given; non-trivial = >=1 reason checked and >=1 conflict or non-root propagation"),
    "C18": dict(kind="lib", level="exploration", modes=[("c18", 9240, 92400)], floor=500, exhaustive=True,
                rule="index i -> (variable selector, value selector) = i mod 154 over the full 11 x 14 matrix, brancher shape (i div 154) mod 5 in {independent, dynamic, alternating, autonomous backup, default}; models with holes, negative values, size-2 domains; half of the runs under random restart/learning options; Decision / NoDecision hook events judged; non-trivial = >=2 decisions"),
    "C10": dict(kind="lib", level="exploration", modes=[("c10", 9000, 120000)], floor=500,
                rule="random histories of 4-14 operations on one solver {new variables, post, satisfy, satisfy under assumptions (+/- core extraction), iterate k, optimise (both procedures)}, a third of the solves with a termination condition that fires at poll 0-5, at a log-uniform poll up to ~360, or at the first poll after the j-th nogood learned by that solve (j=1-3); every answer judged against a shadow model (posted constraints, solutions blocked by iteration per the documented rule, envelope for objective cuts); non-trivial = history contains >=2 solve operations"),
    "C11": dict(kind="lib", level="fault_enumeration", modes=[("c11", 3200, 16000)], floor=150,
                rule="per model and entry point (satisfy / iterate / optimise sat-unsat / optimise unsat-sat, by index mod 4): uninterrupted run counts N polls, then the run is repeated on an identically seeded fresh solver with the termination condition firing at poll k for k = 0, s, 2s, ... < N (s = max(1, N div 40) quick, N div 400 thorough) and resumed without interruption; non-trivial = N >= 3 and >= 2 runs actually fired"),
    "C16": dict(kind="lib", level="exploration", modes=[("c16", 18000, 270000)], floor=1000,
                rule="single-constraint models (12 kinds by index) over domains of <= 3 values placed near 0, 2^15, 2^16, 46340, 2^30, +-(2^31-1) with scales up to 65536 and offsets / right-hand sides up to 2^31-1; exact i128 enumeration gives the solution set; post-time errors, root bounds and the iterated solution set are compared; each case labelled with magnitude classes computed from the input in i128; every case is non-trivial (large-magnitude arithmetic at post time)"),
    "C06": dict(kind="lib", level="exploration", modes=[("c06", 5400, 60000)], floor=200, case_timeout=30,
                rule="unsatisfiable models (index mod 5 < 3) and optimisation runs (both procedures, min/max) with DRCP logging in scaffold / full / hinted mode (index mod 3), minimisation on/off, all variables named, every taggable constraint tagged; own parser + checker: codes defined, tagged inferences vs the constraint's tuple table, untagged ones vs the solution set (objective cuts classified against the callback values), nogoods implied by the model and (full/hinted) derivable by domain-based reverse unit propagation, conclusion; non-trivial = proof has >=3 steps"),
    "C19": dict(kind="lib", level="exploration", modes=[("c19", 20000, 400000)], floor=5000,
                rule="random step sequences (inferences with/without premises, conclusion, tag, label; nogoods with none / empty / non-empty hints incl. the empty nogood; deletions; both conclusions; codes up to +-(2^31-1), ids up to 2^64-1) written by ProofWriter and read back by ProofReader; literal definitions with int/bool atomics over random identifiers and 64-bit values incl. the extremes written and parsed back; !!atomic == atomic; every case is non-trivial"),
    "C13": dict(kind="cli", level="exploration", fn="case_fzn", mode="fzn", counts=(3000, 30000), floor=300, engine="cli-monitors",
                technique="runtime monitoring: black-box oracle (own FlatZinc semantics + brute force) over stdout of the rebuilt binary",
                rule="seeded FlatZinc text over 48 builtin spellings of post_constraints.rs, range / set-typed / aliased / fixed declarations, parameter arrays, output arrays, constants as arguments, int_search / bool_search annotations, satisfy / minimize / maximize, flags -a, -f, both optimisation strategies, random cumulative options; every printed block must extend to a solution, -a must print exactly the projection of all solutions plus the completeness line, UNSAT marker iff no solution, last block optimal; non-trivial = the model has >=2 solutions"),
    "C14": dict(kind="cli", level="exploration", fn="case_cnf", mode="cnf", counts=(500, 6000), floor=150, engine="cli-monitors",
                technique="runtime monitoring: brute-force verdict, model-line check, own forward RUP checker on the DRAT file, metamorphic layouts",
                rule="seeded k-CNF with 0-14 variables (half near the 3-SAT threshold; empty formula, empty / unit / duplicate / tautological clauses) each rendered in 8 layouts (comments between and inside clauses, line breaks inside clauses, tabs / double blanks, header spacing, CRLF, no trailing newline); verdict vs brute force, v line total and satisfying, DRAT lemmas checked by forward reverse-unit-propagation and ending in the empty clause, same verdict in every layout; non-trivial = >=3 clauses over >=2 variables"),
    "C15": dict(kind="cli", level="exploration", fn="case_wcnf", mode="wcnf", counts=(3000, 30000), floor=300, engine="cli-monitors",
                technique="runtime monitoring: brute-force optimum vs the o / s / v lines of the rebuilt binary, both encodings",
                rule="seeded WCNF with 1-8 variables: 55% plain (no repeated variable in a clause, no empty clause), 45% degenerate (empty / duplicate / unit soft clauses, repeated variables, soft clauses decided by hard units), weights 1-50 or uniform; generalized totalizer always, cardinality network on uniform-weight instances; s line, last o line, model cost and hard clauses vs brute force, o lines strictly decreasing; non-trivial = >=2 soft clauses and satisfiable hard part"),
    "C20": dict(kind="c20", level="exploration", counts=(400, 4000), lib_counts=(1500, 20000), floor=300, engine="cli-monitors",
                technique="runtime monitoring: repetition in separate processes under perturbation (fresh hash seeds / ASLR, environment size, parallel load); byte equality",
                rule="library: each generated case (random options / brancher, iterate or optimise) is run in two separate processes and the digest of (decisions, learned nogoods, restarts, solutions in order, verdict, poll count, event statistics) is compared; CLI: CNF (+DRAT), WCNF, FlatZinc (+DRCP proof and .lits in all three proof types) inputs are each run 3 (quick) or 8 (thorough) times in fresh processes with different environment sizes, with -s statistics; stdout with wall-clock fields masked and every proof file must be byte-identical; non-trivial = run made >=2 decisions / printed >=3 lines"),
}


def counts(spec, tier):
    return [(m, q if tier == "quick" else t) for (m, q, t) in spec["modes"]]


def run(prop, tier, seed):
    spec = PROPS[prop]
    if spec["kind"] == "lib":
        return run_lib(prop, spec, tier, seed)
    if spec["kind"] == "cli":
        return run_cli_prop(prop, spec, tier, seed)
    if spec["kind"] == "c20":
        return run_c20(prop, spec, tier, seed)
    raise SystemExit("unknown kind")


CLI_ASSUMPTIONS = [
    "the binary is rebuilt from /repo's working tree (release profile, LTO off for build speed) by every run",
    "reference semantics of DIMACS / WDIMACS / FlatZinc builtins are the checker's own (pylib/climon.py) and ground truth is brute force over <= 14 Boolean / a few small integer variables",
    "held on the executions that were run; a 20 s wall-clock limit per CLI call is a watchdog, not a verdict on its own (reported as a failure of kind timeout only when reproduced)",
]


def run_cli_prop(prop, spec, tier, seed):
    import tempfile, shutil
    import climon
    bt = orch.build_cli()
    agg = Agg(prop, tier, seed, spec["level"])
    agg.extra["build_s"] = round(bt, 1)
    findings = orch.load_findings(prop)
    work = tempfile.mkdtemp(prefix="vcli-")
    try:
        replay_cli_findings(agg, findings, spec, work)
        n = spec["counts"][0 if tier == "quick" else 1]
        results = climon.run_cases(getattr(climon, spec["fn"]), seed, spec["mode"], n, work)
        # a timeout only counts when it reproduces
        # (at most 6 are re-run, side by side; further ones are recorded as inconclusive, not as violations)
        timed_out = [r for r in results if r["status"] == "fail" and r.get("kind") == "timeout"]

        def again(r):
            rd = os.path.join(work, "retry%d" % r["i"])
            os.makedirs(rd, exist_ok=True)
            return getattr(climon, spec["fn"])(climon.rng_for(seed, spec["mode"], r["i"]), r["i"], rd)

        from concurrent.futures import ThreadPoolExecutor
        with ThreadPoolExecutor(max_workers=6) as ex:
            reruns = list(ex.map(again, timed_out[:6]))
        for r, a in zip(timed_out[:6], reruns):
            if a["status"] != "fail" or a.get("kind") != "timeout":
                agg.inconclusive.append({"index": r["i"], "what": "timeout", "note": "did not reproduce"})
                r.update(a)
        for r in timed_out[6:]:
            agg.inconclusive.append({"index": r["i"], "what": "timeout", "note": "not re-run (more than 6 timeouts in this run)"})
            r["status"] = "skip"
            r["skip"] = "timeout that was not re-run"
        agg.add_results(spec["mode"], results, findings)
    finally:
        shutil.rmtree(work, ignore_errors=True)
    for fid in sorted(agg.known_hits):
        agg.print_known(next(f for f in findings if f["id"] == fid))
    return agg.finish(spec["rule"], spec["floor"], CLI_ASSUMPTIONS)


def replay_cli_findings(agg, findings, spec, work):
    import climon
    for f in findings:
        w = f.get("witness")
        if not w:
            continue
        data = json.load(open(os.path.join(orch.VERIF, w["file"])))
        res = replay_cli_case(spec, data, os.path.join(work, "wit-" + f["id"]))
        res["mode"] = spec.get("mode")
        if orch.finding_matches(f, res):
            agg.known_hits[f["id"]] = agg.known_hits.get(f["id"], 0) + 1
            agg.print_known(f)
        else:
            agg.notes.append("finding %s: witness no longer fails as listed (%s %s)" % (f["id"], res.get("status"), res.get("kind", "")))
            log("NOTE: finding %s did not reproduce on this tree (it may have been fixed)" % f["id"])


def replay_cli_case(spec, data, d):
    import climon
    os.makedirs(d, exist_ok=True)
    mode = data.get("mode") or spec.get("mode")
    if mode == "cnf":
        return climon.replay_cnf(data, d)
    if mode == "wcnf":
        return climon.replay_wcnf(data, d)
    if mode == "fzn" and "oracle" in (data.get("case") or {}):
        return climon.replay_fzn(data, d)
    # otherwise the case is regenerated from its coordinates
    fn = {"fzn": climon.case_fzn}.get(mode)
    if fn is None:
        fn = lambda r, i, dd: climon.case_repro(r, i, dd, 3)
    return fn(climon.rng_for(data["seed"], mode, data["index"]), data["index"], d)


def run_c20(prop, spec, tier, seed):
    import tempfile, shutil
    import climon
    b1 = orch.build_harness()
    b2 = orch.build_cli()
    agg = Agg(prop, tier, seed, spec["level"])
    agg.extra["build_s"] = round(b1 + b2, 1)
    findings = orch.load_findings(prop)
    q = 0 if tier == "quick" else 1
    # library part: two passes in separate processes (different job counts = different parallel load)
    n = spec["lib_counts"][q]
    pass1, inc1, _ = orch.run_pool("c20", seed, tier, n, 20)
    env_pad = dict(orch.ENV)
    orch.ENV["VERIF_PAD"] = "y" * 4099
    pass2, inc2, _ = orch.run_pool("c20", seed, tier, n, 20, jobs=max(2, orch.NCPU // 3))
    orch.ENV.pop("VERIF_PAD", None)
    d2 = {r["i"]: r for r in pass2}
    results = []
    differing_seed_changes = 0
    for r in pass1:
        o = d2.get(r["i"])
        if o is None:
            continue
        dg1 = next((x for x in r.get("notes", []) if x.startswith("digest=")), None)
        dg2 = next((x for x in o.get("notes", []) if x.startswith("digest=")), None)
        r["counters"] = dict(r.get("counters", {}))
        r["counters"]["digests_compared"] = 1
        if dg1 != dg2:
            r["status"] = "fail"
            r["kind"] = "trace-differs-between-processes"
            r["detail"] = "library case %d: %s vs %s (decisions / nogoods / solutions / statistics digest)" % (r["i"], dg1, dg2)
        results.append(r)
    agg.add_results("c20", results, findings)
    agg.extra["library_incidents"] = len(inc1) + len(inc2)
    # sanity that the comparison is not vacuous: neighbouring cases have different digests
    digs = {next((x for x in r.get("notes", []) if x.startswith("digest=")), None) for r in pass1}
    agg.extra["distinct_library_digests"] = len(digs)
    # CLI part
    runs = 3 if tier == "quick" else 8
    work = tempfile.mkdtemp(prefix="vrepro-")
    try:
        res = climon.run_cases(lambda r, i, d: climon.case_repro(r, i, d, runs), seed, "repro", spec["counts"][q], work)
        agg.add_results("repro", res, findings)
    finally:
        shutil.rmtree(work, ignore_errors=True)
    for fid in sorted(agg.known_hits):
        agg.print_known(next(f for f in findings if f["id"] == fid))
    return agg.finish(spec["rule"], spec["floor"], CLI_ASSUMPTIONS + LIB_ASSUMPTIONS[1:2])


def run_lib(prop, spec, tier, seed):
    bt = orch.build_harness()
    agg = Agg(prop, tier, seed, spec["level"])
    agg.extra["build_s"] = round(bt, 1)
    findings = orch.load_findings(prop)
    agg.replay_findings(findings)
    case_timeout = spec.get("case_timeout", 20)
    for mode, count in counts(spec, tier):
        results, incidents, truncated = orch.run_pool(mode, seed, tier, count, case_timeout)
        agg.add_results(mode, results, findings)
        agg.handle_incidents(mode, seed, tier, incidents, findings, case_timeout)
        if truncated:
            agg.notes.append("mode %s truncated by deadline" % mode)
    for fid in sorted(agg.known_hits):
        f = next(f for f in findings if f["id"] == fid)
        agg.print_known(f)
    return agg.finish(spec["rule"], spec["floor"] if tier == "quick" else spec["floor"], LIB_ASSUMPTIONS,
                      exhaustive=spec.get("exhaustive"))


def replay(prop, path):
    spec = PROPS[prop]
    data = json.load(open(path))
    if spec["kind"] == "lib":
        orch.build_harness()
        mode = data.get("mode") or spec["modes"][0][0]
        st, res = orch.run_case_file(mode, path, 120, data.get("extra_args", []))
        if st != "ok" and (res is None or res.get("status") != "fail"):
            log("replay: %s" % st)
            log("VIOLATION property=%s replay=%s" % (prop, path))
            return 1
        log(json.dumps({k: res.get(k) for k in ("status", "kind", "detail", "classes", "config")}, indent=1))
        if res["status"] == "fail":
            log("VIOLATION property=%s replay=%s" % (prop, path))
            return 1
        log("replay: case passes on this tree")
        return 0
    import tempfile, shutil
    orch.build_cli()
    if spec["kind"] == "c20" and data.get("mode") == "c20":
        orch.build_harness()
        log("replay of a library reproducibility case: re-run ./check C20 quick with VERIF_SEED=%s" % data.get("seed"))
        return 0
    work = tempfile.mkdtemp(prefix="vreplay-")
    try:
        res = replay_cli_case(spec, data, work)
    finally:
        shutil.rmtree(work, ignore_errors=True)
    log(json.dumps({k: res.get(k) for k in ("status", "kind", "detail", "classes", "config")}, indent=1))
    if res["status"] == "fail":
        log("VIOLATION property=%s replay=%s" % (prop, path))
        return 1
    log("replay: case passes on this tree")
    return 0
