"""Orchestrator: builds, worker pool with watchdogs, known-findings matching, evidence, replay."""
import json
import os
import re
import signal
import subprocess
import sys
import threading
import time

VERIF = os.path.dirname(os.path.dirname(os.path.abspath(__file__)))
REPO = "/repo"
HARNESS = os.path.join(VERIF, "harness")
VCHECK = os.path.join(HARNESS, "target", "release", "vcheck")
CLI_TARGET = os.path.join(VERIF, "target", "cli")
CLI = os.path.join(CLI_TARGET, "release", "pumpkin-solver")
NCPU = int(os.environ.get("VERIF_JOBS", os.cpu_count() or 8))

ENV = dict(os.environ)
ENV["CARGO_NET_OFFLINE"] = "true"
ENV["RUST_BACKTRACE"] = "0"


def log(*a):
    print(*a, flush=True)


# ------------------------------------------------------------------------------------------------
# builds (always from /repo's current working tree; cargo's own change detection keeps them cheap)

def build_harness():
    t = time.time()
    p = subprocess.run(["cargo", "build", "--release", "--quiet"], cwd=HARNESS, env=ENV,
                       stdout=subprocess.PIPE, stderr=subprocess.STDOUT, text=True)
    if p.returncode != 0:
        log(p.stdout[-6000:])
        log("HARNESS-ERROR: the harness does not build against /repo's working tree")
        sys.exit(2)
    return time.time() - t


def build_cli():
    t = time.time()
    env = dict(ENV)
    env["CARGO_PROFILE_RELEASE_LTO"] = "false"
    env["CARGO_PROFILE_RELEASE_CODEGEN_UNITS"] = "16"
    env["RUSTFLAGS"] = "--cfg pumpkin_verif"
    p = subprocess.run(["cargo", "build", "--release", "--quiet", "-p", "pumpkin-solver", "--bin", "pumpkin-solver",
                        "--target-dir", CLI_TARGET], cwd=REPO, env=env,
                       stdout=subprocess.PIPE, stderr=subprocess.STDOUT, text=True)
    if p.returncode != 0:
        log(p.stdout[-6000:])
        log("HARNESS-ERROR: the CLI binary does not build from /repo's working tree")
        sys.exit(2)
    return time.time() - t


# ------------------------------------------------------------------------------------------------
# worker pool for the Rust harness

class Shard:
    def __init__(self, mode, seed, tier, start, end, case_timeout, extra_args=()):
        self.mode, self.seed, self.tier = mode, seed, tier
        self.next, self.end = start, end
        self.case_timeout = case_timeout
        self.extra_args = list(extra_args)
        self.results = []       # parsed result dicts
        self.incidents = []     # (idx, 'hang' | 'crash:<rc>')
        self.proc = None
        self.cur = None
        self.cur_since = None
        self.lock = threading.Lock()

    def spawn(self):
        cmd = [VCHECK, self.mode, "--seed", str(self.seed), "--tier", self.tier,
               "--start", str(self.next), "--count", str(self.end - self.next)] + self.extra_args
        self.proc = subprocess.Popen(cmd, stdout=subprocess.PIPE, stderr=subprocess.DEVNULL, env=ENV, text=True)
        self.cur = None
        self.cur_since = time.time()
        threading.Thread(target=self.reader, args=(self.proc,), daemon=True).start()

    def reader(self, proc):
        for line in proc.stdout:
            line = line.strip()
            if not line:
                continue
            try:
                j = json.loads(line)
            except Exception:
                continue
            with self.lock:
                if "start" in j and len(j) == 1:
                    self.cur = j["start"]
                    self.cur_since = time.time()
                else:
                    self.results.append(j)
                    self.next = j["i"] + 1
                    self.cur = None
                    self.cur_since = time.time()
        proc.stdout.close()

    def poll(self):
        """Returns True when the shard is finished."""
        rc = self.proc.poll()
        with self.lock:
            if rc is None:
                if self.cur_since is not None and time.time() - self.cur_since > self.case_timeout:
                    idx = self.cur if self.cur is not None else self.next
                    self.proc.kill()
                    self.proc.wait()
                    self.incidents.append((idx, "hang"))
                    self.next = idx + 1
                    if self.next < self.end:
                        self.spawn()
                        return False
                    return True
                return False
        # exited: give the reader a moment to drain
        time.sleep(0.05)
        with self.lock:
            if rc == 0 and self.next >= self.end:
                return True
            if rc == 0 and self.cur is None and self.next < self.end:
                # clean exit but fewer results than expected: treat as done
                return True
            idx = self.cur if self.cur is not None else self.next
            self.incidents.append((idx, "crash:%s" % rc))
            self.next = idx + 1
            if self.next < self.end:
                self.spawn()
                return False
            return True


def run_pool(mode, seed, tier, count, case_timeout=20, extra_args=(), jobs=None, deadline=None):
    jobs = jobs or NCPU
    per = max(1, (count + jobs * 4 - 1) // (jobs * 4))  # 4 shards per core for load balance
    pending = [Shard(mode, seed, tier, a, min(count, a + per), case_timeout, extra_args) for a in range(0, count, per)]
    running, done = [], []
    truncated = False
    while pending or running:
        if deadline and time.time() > deadline and pending:
            truncated = True
            pending = []
        while pending and len(running) < jobs:
            s = pending.pop(0)
            s.spawn()
            running.append(s)
        time.sleep(0.05)
        for s in list(running):
            if s.poll():
                running.remove(s)
                done.append(s)
    results, incidents = [], []
    for s in done:
        results.extend(s.results)
        incidents.extend(s.incidents)
    results.sort(key=lambda j: j["i"])
    return results, incidents, truncated


def run_single(mode, seed, tier, idx, case_timeout, extra_args=()):
    """Re-run one generated case alone. Returns ('ok'|'hang'|'crash:rc', result or None)."""
    cmd = [VCHECK, mode, "--seed", str(seed), "--tier", tier, "--start", str(idx), "--count", "1"] + list(extra_args)
    return _run_one(cmd, case_timeout)


def run_case_file(mode, path, case_timeout, extra_args=()):
    cmd = [VCHECK, mode, "--case-file", path] + list(extra_args)
    return _run_one(cmd, case_timeout)


def _run_one(cmd, case_timeout):
    try:
        p = subprocess.run(cmd, stdout=subprocess.PIPE, stderr=subprocess.DEVNULL, env=ENV, text=True, timeout=case_timeout)
    except subprocess.TimeoutExpired:
        return "hang", None
    res = None
    for line in p.stdout.splitlines():
        try:
            j = json.loads(line)
        except Exception:
            continue
        if "status" in j:
            res = j
    if p.returncode != 0 or res is None:
        return "crash:%s" % p.returncode, res
    return "ok", res


# ------------------------------------------------------------------------------------------------
# known findings

def load_findings(prop):
    path = os.path.join(VERIF, "known_findings.json")
    if not os.path.exists(path):
        return []
    data = json.load(open(path))
    return [f for f in data.get("findings", []) if f["property"] == prop]


def symptom_text(res):
    return "%s: %s" % (res.get("kind", ""), res.get("detail", ""))


def finding_matches(f, res):
    if res.get("status") != "fail":
        return False
    if f.get("mode") and res.get("mode") and f["mode"] != res["mode"]:
        return False
    classes = set(res.get("classes", []))
    if not all(c in classes for c in f.get("classes", [])):
        return False
    any_of = f.get("classes_any")
    if any_of and not any(c in classes for c in any_of):
        return False
    return re.search(f["symptom"], symptom_text(res)) is not None


# ------------------------------------------------------------------------------------------------
# evidence

def write_evidence(prop, ev):
    d = os.path.join(VERIF, "evidence")
    os.makedirs(d, exist_ok=True)
    tmp = os.path.join(d, prop + ".json.tmp")
    with open(tmp, "w") as f:
        json.dump(ev, f, indent=1, sort_keys=False)
        f.write("\n")
    os.replace(tmp, os.path.join(d, prop + ".json"))


def write_replay(prop, name, payload):
    d = os.path.join(VERIF, "replays", prop)
    os.makedirs(d, exist_ok=True)
    path = os.path.join(d, name + ".json")
    with open(path, "w") as f:
        json.dump(payload, f, indent=1)
        f.write("\n")
    return path


class Agg:
    """Aggregates worker results for one property run."""

    def __init__(self, prop, tier, seed, level):
        self.prop, self.tier, self.seed, self.level = prop, tier, seed, level
        self.t0 = time.time()
        self.evaluations = 0
        self.skipped = 0
        self.nontrivial_fps = set()
        self.counters = {}
        self.cover = {}
        self.class_hist = {}
        self.samples = []
        self.violations = []      # (res, replay_path)
        self.known_hits = {}      # finding id -> count
        self.known_printed = set()
        self.inconclusive = []
        self.notes = []
        self.per_mode = {}
        self.extra = {}

    def add_results(self, mode, results, findings):
        pm = self.per_mode.setdefault(mode, {"evaluations": 0, "failures_known": 0, "failures_new": 0, "skipped": 0})
        for r in results:
            r["mode"] = mode
            self.evaluations += 1
            pm["evaluations"] += 1
            if r["status"] == "skip":
                self.skipped += 1
                pm["skipped"] += 1
                continue
            if r.get("nontrivial"):
                self.nontrivial_fps.add(mode + ":" + r.get("fp", str(r["i"])))
            for k, v in r.get("counters", {}).items():
                self.counters[k] = self.counters.get(k, 0) + v
            for c in r.get("cover", []):
                self.cover[c] = self.cover.get(c, 0) + 1
            for c in r.get("classes", []):
                self.class_hist[c] = self.class_hist.get(c, 0) + 1
            if len(self.samples) < 3 and r.get("nontrivial") and r["status"] == "ok":
                self.samples.append({"mode": mode, "index": r["i"], "case": r.get("case"), "config": r.get("config"),
                                     "counters": r.get("counters"), "verdict": "ok"})
            if r["status"] == "fail":
                f = next((f for f in findings if finding_matches(f, r)), None)
                if f is not None:
                    if f["id"] not in self.known_hits:
                        # keep one concrete case per finding and run (a candidate witness)
                        write_replay(self.prop, "known-%s-seed%s-%s" % (f["id"], self.seed, r.get("i", "x")),
                                     {"property": self.prop, "mode": mode, "seed": self.seed, "tier": self.tier, "index": r.get("i"),
                                      "kind": r.get("kind"), "detail": r.get("detail"), "classes": r.get("classes"), "config": r.get("config"),
                                      "case": r.get("case"), "extra_args": r.get("extra_args", [])})
                    self.known_hits[f["id"]] = self.known_hits.get(f["id"], 0) + 1
                    pm["failures_known"] += 1
                else:
                    pm["failures_new"] += 1
                    self.violation(mode, r)

    def violation(self, mode, r):
        name = "%s-seed%s-%s-%s" % (self.tier, self.seed, mode, r.get("i", "x"))
        path = write_replay(self.prop, name, {"property": self.prop, "mode": mode, "seed": self.seed, "tier": self.tier,
                                              "index": r.get("i"), "kind": r.get("kind"), "detail": r.get("detail"),
                                              "classes": r.get("classes"), "config": r.get("config"), "case": r.get("case"),
                                              "extra_args": r.get("extra_args", [])})
        self.violations.append({"mode": mode, "index": r.get("i"), "kind": r.get("kind"), "detail": r.get("detail", "")[:600],
                                "classes": r.get("classes"), "replay": path})
        log("VIOLATION property=%s replay=%s" % (self.prop, path))
        log("  %s: %s" % (r.get("kind"), r.get("detail", "")[:400]))

    def handle_incidents(self, mode, seed, tier, incidents, findings, case_timeout, extra_args=()):
        """Hangs / crashes: classified by the case's labels; new ones are confirmed by solitary replay
        (twice) before they count."""
        from concurrent.futures import ThreadPoolExecutor
        todo = []
        for idx, what in incidents:
            st, d = _run_one([VCHECK, mode, "--seed", str(seed), "--tier", tier, "--start", str(idx), "--count", "1", "--describe"] + list(extra_args), 30)
            d = d or {}
            r = {"i": idx, "status": "fail", "kind": what.split(":")[0],
                 "detail": "case %s of mode %s: %s (limit %ss per case)" % (idx, mode, what, case_timeout),
                 "classes": d.get("classes", []), "case": d.get("case"), "config": d.get("config"), "nontrivial": True,
                 "fp": d.get("fp", str(idx)), "extra_args": list(extra_args), "mode": mode}
            if any(finding_matches(f, r) for f in findings):
                self.add_results(mode, [r], findings)
            else:
                todo.append((idx, what, r))

        def confirm(item):
            idx, what, r = item
            n = 0
            for _ in range(2):
                st, _res = run_single(mode, seed, tier, idx, case_timeout, extra_args)
                if st.split(":")[0] == what.split(":")[0]:
                    n += 1
            return n

        cap = 8
        with ThreadPoolExecutor(max_workers=8) as ex:
            confirmed = list(ex.map(confirm, todo[:cap]))
        for (idx, what, r), n in zip(todo[:cap], confirmed):
            if n == 2:
                r["detail"] += " - reproduced twice when re-run alone"
                self.add_results(mode, [r], findings)
            else:
                self.inconclusive.append({"mode": mode, "index": idx, "what": what, "note": "did not reproduce when re-run alone (%d/2)" % n})
        for idx, what, r in todo[cap:]:
            self.inconclusive.append({"mode": mode, "index": idx, "what": what, "note": "not confirmed (more than %d unexplained incidents in this run)" % cap})

    def replay_findings(self, findings, case_timeout=60):
        """Replays each listed witness; prints KNOWN-FINDING when it still fails as listed."""
        for f in findings:
            w = f.get("witness")
            if not w:
                continue
            path = os.path.join(VERIF, w["file"])
            st, res = run_case_file(w["mode"], path, case_timeout, w.get("extra_args", []))
            if st != "ok":
                res = {"status": "fail", "kind": st.split(":")[0], "detail": "witness replay: %s" % st,
                       "classes": (res or {}).get("classes", f.get("classes", []))}
            res["mode"] = w["mode"]
            # a witness borrowed from another property is judged by the symptom it shows in its own mode
            fm = dict(f, symptom=w["symptom"], mode=w["mode"], classes=w.get("classes", f.get("classes", []))) if "symptom" in w else f
            if finding_matches(fm, res):
                self.known_hits[f["id"]] = self.known_hits.get(f["id"], 0) + 1
                self.print_known(f)
            else:
                self.notes.append("finding %s: witness no longer fails as listed (status %s %s)" % (f["id"], res.get("status"), res.get("kind", "")))
                log("NOTE: finding %s did not reproduce on this tree (it may have been fixed)" % f["id"])

    def print_known(self, f):
        if f["id"] not in self.known_printed:
            self.known_printed.add(f["id"])
            log("KNOWN-FINDING: property=%s %s [%s]" % (self.prop, f["what"], f["id"]))

    def finish(self, rule, floor, assumptions, extra_cov=None, exhaustive=None):
        wall = time.time() - self.t0
        distinct = len(self.nontrivial_fps)
        cov = {
            "evaluations": self.evaluations,
            "distinct_nontrivial": distinct,
            "rule": rule,
            "samples": self.samples if self.samples else [{"note": "no passing non-trivial case to show"}],
            "skipped": self.skipped,
            "monitor_counters": dict(sorted(self.counters.items())),
            "observed": dict(sorted(self.cover.items())),
            "input_classes": dict(sorted(self.class_hist.items())),
            "per_mode": self.per_mode,
            "known_finding_hits": self.known_hits,
            "inconclusive": self.inconclusive,
            "violations_detail": self.violations[:20],
            "notes": self.notes,
        }
        if exhaustive is not None:
            cov["exhaustive"] = exhaustive
        if extra_cov:
            cov.update(extra_cov)
        cov.update(self.extra)
        verdict = "violated" if self.violations else ("inconclusive" if distinct < floor else "held")
        cov["verdict"] = verdict
        ev = {"property_id": self.prop, "tier": self.tier, "seed": self.seed, "level": self.level, "coverage": cov,
              "assumptions": assumptions, "wall_s": round(wall, 2), "violations": len(self.violations)}
        write_evidence(self.prop, ev)
        for fid in self.known_hits:
            pass
        if verdict == "inconclusive":
            log("INCONCLUSIVE property=%s only %d distinct non-trivial cases (floor %d)" % (self.prop, distinct, floor))
        log("%s %s seed=%s: %d evaluations, %d distinct non-trivial, %d violations, %d known-finding hits, %.1fs -> %s"
            % (self.prop, self.tier, self.seed, self.evaluations, distinct, len(self.violations), sum(self.known_hits.values()), wall, verdict))
        return 1 if self.violations else 0


# ------------------------------------------------------------------------------------------------

def main(argv):
    import props
    if not argv:
        log(__doc__)
        return 2
    if argv[0] == "--build":
        t1 = build_harness()
        t2 = build_cli()
        log("built harness (%.1fs) and CLI (%.1fs)" % (t1, t2))
        return 0
    prop = argv[0]
    if prop not in props.PROPS:
        log("unknown property %s" % prop)
        return 2
    if len(argv) >= 3 and argv[1] == "--replay":
        return props.replay(prop, argv[2])
    tier = argv[1] if len(argv) > 1 else os.environ.get("VERIF_TIER", "quick")
    if os.environ.get("VERIF_TIER") in ("quick", "thorough") and len(argv) < 2:
        tier = os.environ["VERIF_TIER"]
    seed = int(os.environ.get("VERIF_SEED", "1"))
    return props.run(prop, tier, seed)
