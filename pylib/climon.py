"""Black-box monitors over the rebuilt pumpkin-solver binary: DIMACS CNF (C14), WCNF (C15), FlatZinc (C13)
and byte-level reproducibility (C20). Own generators, own semantics, own proof checkers."""
import hashlib
import itertools
import os
import random
import re
import shutil
import subprocess
import tempfile
from concurrent.futures import ThreadPoolExecutor

import orch

CLI = orch.CLI


def rng_for(seed, mode, idx):
    h = hashlib.sha256(("%s/%s/%s" % (seed, mode, idx)).encode()).digest()
    return random.Random(int.from_bytes(h[:8], "big"))


CLI_TIMEOUTS = [0]  # runs of the binary that hit their time limit (all checks of this process)


def run_cli(args, timeout=20, env_extra=None):
    env = dict(orch.ENV)
    env["RUST_BACKTRACE"] = "0"
    if env_extra:
        env.update(env_extra)
    try:
        p = subprocess.run([CLI] + args, stdout=subprocess.PIPE, stderr=subprocess.PIPE, env=env, timeout=timeout)
        return p.returncode, p.stdout.decode("utf-8", "replace"), p.stderr.decode("utf-8", "replace")
    except subprocess.TimeoutExpired:
        CLI_TIMEOUTS[0] += 1
        return "timeout", "", ""


def crash_text(rc, out, err):
    lines = (err + "\n" + out).splitlines()
    for i, l in enumerate(lines):
        if "panicked at" in l:
            nxt = lines[i + 1].strip() if i + 1 < len(lines) else ""
            loc = l.split("panicked at")[-1].strip().rstrip(":")
            loc = re.sub(r":\d+:\d+$", "", loc)
            return "panic: %s @ %s" % (nxt[:160], loc)
    for l in lines:
        if "rror" in l:
            return "error exit %s: %s" % (rc, l.strip()[:200])
    return "exit status %s without a verdict: %s" % (rc, (out + err).strip()[-200:])


def result(i, classes, text, args):
    return {"i": i, "status": "ok", "nontrivial": False, "fp": hashlib.sha1((text + " ".join(args)).encode()).hexdigest()[:16],
            "classes": sorted(set(classes)), "counters": {}, "cover": [], "config": {"args": args}, "case": {"text": text}}


def fail(res, kind, detail):
    if res["status"] != "fail":
        res["status"] = "fail"
        res["kind"] = kind
        res["detail"] = detail


def count(res, k, n=1):
    res["counters"][k] = res["counters"].get(k, 0) + n


def run_cases(fn, seed, mode, n, workdir, jobs=None):
    jobs = jobs or orch.NCPU

    timeouts_at_start = CLI_TIMEOUTS[0]

    def one(i):
        # a tree on which the binary stops terminating would keep every worker waiting for the per-run
        # limit: after 40 runs that hit it (the cases they belong to are reported) the rest is skipped
        if CLI_TIMEOUTS[0] - timeouts_at_start >= 40:
            res = result(i, [], "", [])
            res["status"] = "skip"
            res["skip"] = "run cut short after 40 timeouts"
            return res
        d = os.path.join(workdir, "w%d" % (i % (jobs * 2)), str(i))
        os.makedirs(d, exist_ok=True)
        try:
            return fn(rng_for(seed, mode, i), i, d)
        finally:
            shutil.rmtree(d, ignore_errors=True)

    with ThreadPoolExecutor(max_workers=jobs) as ex:
        return list(ex.map(one, range(n)))


# ================================================================================================
# C14: DIMACS CNF

def cnf_brute(n, clauses):
    for bits in itertools.product([False, True], repeat=n):
        if all(any(bits[abs(l) - 1] == (l > 0) for l in c) for c in clauses):
            return True
    return False


def unit_prop_conflict(db, assumps):
    val = {}
    for l in assumps:
        if val.get(abs(l), l > 0) != (l > 0):
            return True
        val[abs(l)] = l > 0
    changed = True
    while changed:
        changed = False
        for c in db:
            un = None
            nun = 0
            sat = False
            for l in c:
                v = val.get(abs(l))
                if v is None:
                    nun += 1
                    un = l
                elif v == (l > 0):
                    sat = True
                    break
            if sat:
                continue
            if nun == 0:
                return True
            if nun == 1:
                val[abs(un)] = un > 0
                changed = True
    return False


def normalise(c):
    s = set(c)
    if any(-l in s for l in s):
        return None  # tautology
    return sorted(s, key=abs)


def rup_check(clauses, lemmas):
    db = [x for x in (normalise(c) for c in clauses) if x is not None]
    for k, lem in enumerate(lemmas):
        nl = normalise(lem)
        if nl is None:
            continue
        if not unit_prop_conflict(db, [-l for l in nl]):
            return "lemma %d %s is not a reverse-unit-propagation consequence" % (k + 1, lem)
        db.append(nl)
    if not lemmas or lemmas[-1] != []:
        return "the proof does not end with the empty clause"
    return None


def cnf_layouts(r, n, clauses):
    """Equivalent spellings of the same formula."""
    def body(sep_lit=" ", line_break_p=0.0, comments=0.0, crlf=False, tabs=False, trailing_nl=True, header_sp=" "):
        nl = "\r\n" if crlf else "\n"
        out = []
        if comments and r.random() < 0.7:
            out.append("c generated file" + nl)
        out.append("p%scnf%s%d%s%d" % (header_sp, header_sp, n, header_sp, len(clauses)) + nl)
        for c in clauses:
            toks = [str(l) for l in c] + ["0"]
            line = ""
            for t in toks:
                if line and r.random() < line_break_p:
                    out.append(line + nl)
                    if comments and r.random() < comments:
                        out.append("c inside a clause" + nl)
                    line = t
                else:
                    sep = ("\t" if tabs and r.random() < 0.5 else sep_lit) if line else ""
                    line = line + sep + t
            out.append(line + nl)
            if comments and r.random() < comments:
                out.append("c between clauses" + nl)
        s = "".join(out)
        if not trailing_nl:
            s = s.rstrip("\r\n")
        return s
    return [
        ("canonical", body()),
        ("comments", body(comments=0.3)),
        ("linebreaks", body(line_break_p=0.3)),
        ("linebreaks+comments", body(line_break_p=0.3, comments=0.3)),
        ("whitespace", body(sep_lit="  ", tabs=True)),
        ("header-spacing", body(header_sp="  ")),
        ("crlf", body(crlf=True)),
        ("no-trailing-newline", body(trailing_nl=False)),
    ]


def gen_cnf(r):
    n = r.choice([0, 1, 2, 3, 4, 5, 6, 8, 10, 12, 14])
    shape = r.random()
    if shape < 0.03:
        # long implication chains feeding small conflict gadgets (deep reason chains exercise the depth limit
        # of recursive nogood minimisation); satisfiable by construction (all chain variables false)
        comps = r.randint(3, 8)
        clauses = []
        nv = 0
        for _ in range(comps):
            L = r.randint(520, 1300)
            a = list(range(nv + 1, nv + L + 1))
            b, c = nv + L + 1, nv + L + 2
            nv += L + 2
            for i in range(L - 1):
                clauses.append([-a[i], a[i + 1]])
            for sb in (1, -1):
                for sc in (1, -1):
                    clauses.append([-a[-1], sb * b, sc * c])
            # make the head of the chain attractive for the search
            clauses.append([a[0], b])
            clauses.append([a[0], -b, c])
        return nv, clauses, ["cnf.large", "cnf.deep_chains"]
    if shape < 0.12:
        # larger instances (hundreds of conflicts, so that restarts and learned-clause database reduction
        # happen): ground truth comes from the certificate (model line / checked DRAT proof)
        if r.random() < 0.4:
            k = r.choice([4, 4, 5, 5, 5, 5, 6])  # pigeonhole PHP(k+1, k): unsatisfiable
            var = lambda p, h: p * k + h + 1
            clauses = [[var(p, h) for h in range(k)] for p in range(k + 1)]
            clauses += [[-var(p, h), -var(q, h)] for h in range(k) for p in range(k + 1) for q in range(p + 1, k + 1)]
            r.shuffle(clauses)
            return (k + 1) * k, clauses, ["cnf.large", "cnf.pigeonhole"]
        n = r.randint(18, 30)
        m = int(n * r.uniform(4.0, 4.6))
        clauses = [[r.choice([-1, 1]) * v for v in r.sample(range(1, n + 1), 3)] for _ in range(m)]
        return n, clauses, ["cnf.large"]
    if shape < 0.5 and n >= 3:
        m = int(n * r.uniform(3.5, 5.0))  # around the 3-SAT threshold
        clauses = [[r.choice([-1, 1]) * v for v in r.sample(range(1, n + 1), 3)] for _ in range(m)]
    else:
        m = r.randint(0, 30)
        clauses = []
        for _ in range(m):
            k = r.choice([0, 1, 1, 2, 2, 3, 3, 3, 4]) if n > 0 else 0
            clauses.append([r.choice([-1, 1]) * r.randint(1, n) for _ in range(k)])
    classes = []
    if not clauses:
        classes.append("cnf.empty_formula")
    if any(len(c) == 0 for c in clauses):
        classes.append("cnf.empty_clause")
    if any(len(c) == 1 for c in clauses):
        classes.append("cnf.unit")
    if any(len(set(c)) != len(c) for c in clauses):
        classes.append("cnf.duplicate_literal")
    if any(normalise(c) is None for c in clauses):
        classes.append("cnf.tautology")
    if len({tuple(c) for c in clauses}) != len(clauses):
        classes.append("cnf.duplicate_clause")
    if n == 0:
        classes.append("cnf.no_variables")
    return n, clauses, classes


def parse_cnf_out(out):
    status = None
    v = []
    for l in out.splitlines():
        if l.startswith("s "):
            status = l[2:].strip()
        elif l.startswith("v "):
            v.extend(int(x) for x in l[2:].split())
    return status, v


def check_cnf_text(text, n, clauses, expected_sat, d, res, layout):
    path = os.path.join(d, "f.cnf")
    proof = os.path.join(d, "f.drat")
    with open(path, "w", newline="") as f:
        f.write(text)
    if os.path.exists(proof):
        os.remove(proof)
    rc, out, err = run_cli([path, "--proof-path", proof] + list(res["config"].get("options", [])))
    count(res, "cli_runs")
    if rc == "timeout":
        fail(res, "timeout", "layout %s: no answer within 20 s" % layout)
        return None
    status, v = parse_cnf_out(out)
    if status == "SATISFIABLE":
        assign = {abs(x): x > 0 for x in v if x != 0}
        if expected_sat is False:
            fail(res, "sat-but-unsatisfiable", "layout %s: s SATISFIABLE for an unsatisfiable formula" % layout)
        elif len(assign) != n or any(k < 1 or k > n for k in assign):
            fail(res, "model-not-total", "layout %s: v line %s does not assign exactly the %d variables" % (layout, v, n))
        elif not all(any(assign[abs(l)] == (l > 0) for l in c) for c in clauses):
            fail(res, "model-violates-clause", "layout %s: v line %s falsifies a clause" % (layout, v))
        count(res, "models_checked")
        return "SAT"
    if status == "UNSATISFIABLE":
        if expected_sat is True:
            fail(res, "unsat-but-satisfiable", "layout %s: s UNSATISFIABLE for a satisfiable formula" % layout)
            return "UNSAT"
        try:
            lem = [[int(x) for x in l.split()] for l in open(proof).read().splitlines() if l.strip() and not l.startswith("d")]
        except Exception as e:
            fail(res, "proof-unreadable", "layout %s: %s" % (layout, e))
            return "UNSAT"
        if any(not l or l[-1] != 0 for l in lem):
            fail(res, "proof-malformed", "layout %s: a proof line does not end with 0" % layout)
            return "UNSAT"
        why = rup_check(clauses, [l[:-1] for l in lem])
        count(res, "drat_lemmas_checked", len(lem))
        if why:
            fail(res, "drat-invalid", "layout %s: %s; proof = %s" % (layout, why, lem[:12]))
        return "UNSAT"
    fail(res, "no-verdict", "layout %s: %s" % (layout, crash_text(rc, out, err)))
    return None


def cnf_options(r):
    """Solver options for a CNF run: default in half of the cases, otherwise small learned-clause database
    limits (so that database reduction really happens), minimisation off, restart variants. Restarts keep
    their default warm-up, so the search always makes progress."""
    if r.random() < 0.5:
        return []
    o = ["--learning-max-num-clauses", str(r.choice([0, 1, 5, 20])), "--learning-lbd-threshold", str(r.choice([0, 1, 2, 5])),
         "--learning-sorting-strategy", r.choice(["activity", "lbd"])]
    if r.random() < 0.5:
        o.append("--no-learning-minimise")
    if r.random() < 0.3:
        o.append("--no-restarts")
    o += ["-r", str(r.randint(0, 1000))]
    return o


def case_cnf(r, i, d):
    n, clauses, classes = gen_cnf(r)
    layouts = cnf_layouts(r, n, clauses)
    opts = cnf_options(r)
    if opts:
        classes = classes + ["cnf.options"]
    res = result(i, classes, layouts[0][1], ["--proof-path", "<proof>"] + opts)
    res["config"]["options"] = opts
    # None: too large for brute force, the verdict is validated through its certificate
    expected = cnf_brute(n, clauses) if n <= 14 else (False if "cnf.pigeonhole" in classes else True if "cnf.deep_chains" in classes else None)
    if n > 14:
        layouts = layouts[:3]
    verdicts = {}
    for name, text in layouts:
        lres = result(i, classes + ["layout." + name], text, ["--proof-path", "<proof>"] + opts)
        lres["config"]["options"] = opts
        verdicts[name] = check_cnf_text(text, n, clauses, expected, d, lres, name)
        for k, v in lres["counters"].items():
            count(res, k, v)
        if lres["status"] == "fail" and res["status"] != "fail":
            res.update({"status": "fail", "kind": lres["kind"], "detail": lres["detail"], "classes": lres["classes"], "case": {"text": text, "layout": name}})
        res["cover"].append("layout:" + name)
    if res["status"] != "fail" and len(set(verdicts.values())) != 1:
        fail(res, "layout-dependent-verdict", "verdicts per layout: %s" % verdicts)
    res["cover"].append("verdict:" + ("certified" if expected is None else "sat" if expected else "unsat"))
    res["nontrivial"] = len(clauses) >= 3 and n >= 2
    res["case"]["n"] = n
    res["case"]["clauses"] = clauses
    return res


def replay_cnf(data, d):
    text = data["case"]["text"]
    n, clauses = data["case"]["n"], data["case"]["clauses"]
    res = result(0, data.get("classes", []), text, [])
    res["config"]["options"] = (data.get("config") or {}).get("options", [])
    check_cnf_text(text, n, clauses, cnf_brute(n, clauses) if n <= 14 else None, d, res, data["case"].get("layout", "recorded"))
    return res


# ================================================================================================
# C15: WCNF

def gen_wcnf(r):
    n = r.randint(1, 8)
    top = r.choice([1000, 10000, 51 * 20])
    plain = r.random() < 0.55
    uniform = r.random() < 0.3
    hard, soft = [], []
    for _ in range(r.randint(0, 7)):
        k = r.choice([1, 2, 2, 3]) if plain else r.choice([1, 1, 2, 2, 3])
        vs = r.sample(range(1, n + 1), min(k, n)) if plain else [r.randint(1, n) for _ in range(k)]
        hard.append([r.choice([-1, 1]) * v for v in vs])
    for _ in range(r.randint(0, 8)):
        if plain:
            k = r.choice([1, 2, 2, 3])
            vs = r.sample(range(1, n + 1), min(k, n))
        else:
            k = r.choice([0, 1, 1, 1, 2, 2, 3])
            vs = [r.randint(1, n) for _ in range(k)]
        # uniform instances use one weight for all soft clauses: 1 in most cases, otherwise 2, 3 or 7
        w = [1, 1, 2, 3, 7][(n + top) % 5] if uniform else r.randint(1, 50)
        soft.append((w, [r.choice([-1, 1]) * v for v in vs]))
    if not plain and soft and r.random() < 0.3:
        soft.append(r.choice(soft))  # duplicate soft clause
    items = [("h", c) for c in hard] + [("s", c) for c in soft]
    r.shuffle(items)
    lines = ["p wcnf %d %d %d" % (n, len(items), top)]
    for t, c in items:
        if t == "h":
            lines.append(" ".join(map(str, [top] + c + [0])))
        else:
            lines.append(" ".join(map(str, [c[0]] + c[1] + [0])))
    text = "\n".join(lines) + "\n"
    classes = ["wcnf.plain" if plain else "wcnf.degenerate", "wcnf.uniform_weights" if uniform else "wcnf.nonuniform_weights"]
    if any(len(c) == 0 for _, c in soft):
        classes.append("wcnf.empty_soft")
    if any(len(c) == 1 for _, c in soft):
        classes.append("wcnf.unit_soft")
    if len({(w, tuple(c)) for w, c in soft}) != len(soft) or len({tuple(sorted(c)) for _, c in soft}) != len(soft):
        classes.append("wcnf.duplicate_soft")
    if any(len(set(map(abs, c))) != len(c) for _, c in soft) or any(len(set(map(abs, c))) != len(c) for c in hard):
        classes.append("wcnf.repeated_variable_in_clause")
    units = {c[0] for c in hard if len(c) == 1}
    if any(any(l in units for l in c) or (c and all(-l in units for l in c)) for _, c in soft):
        classes.append("wcnf.root_decided_soft")
    if not soft:
        classes.append("wcnf.no_soft")
    if not hard:
        classes.append("wcnf.no_hard")
    return n, hard, soft, text, classes


def wcnf_brute(n, hard, soft):
    best = None
    for bits in itertools.product([False, True], repeat=n):
        if all(any(bits[abs(l) - 1] == (l > 0) for l in c) for c in hard):
            cost = sum(w for w, c in soft if not any(bits[abs(l) - 1] == (l > 0) for l in c))
            best = cost if best is None else min(best, cost)
    return best


def check_wcnf(text, n, hard, soft, best, enc, d, res):
    path = os.path.join(d, "f.wcnf")
    with open(path, "w") as f:
        f.write(text)
    rc, out, err = run_cli([path, "--upper-bound-encoding", enc])
    count(res, "cli_runs")
    if rc == "timeout":
        fail(res, "timeout", "%s: no answer within 20 s" % enc)
        return
    os_ = [int(l.split()[1]) for l in out.splitlines() if l.startswith("o ")]
    if "s OPTIMUM FOUND" in out:
        v = [int(x) for l in out.splitlines() if l.startswith("v ") for x in l[2:].split()]
        a = {abs(x): x > 0 for x in v if x != 0}
        if best is None:
            fail(res, "optimum-but-hard-unsat", "%s: s OPTIMUM FOUND although the hard clauses are unsatisfiable" % enc)
        elif len(a) != n:
            fail(res, "model-not-total", "%s: v line assigns %d of %d variables" % (enc, len(a), n))
        elif not all(any(a[abs(l)] == (l > 0) for l in c) for c in hard):
            fail(res, "model-violates-hard", "%s: the printed model falsifies a hard clause" % enc)
        elif not os_ or os_[-1] != best:
            fail(res, "wrong-optimum", "%s: last o line %s, true optimum %s (o lines %s)" % (enc, os_[-1] if os_ else None, best, os_))
        elif sum(w for w, c in soft if not any(a[abs(l)] == (l > 0) for l in c)) != best:
            fail(res, "model-cost-mismatch", "%s: printed model costs %s, reported optimum %s" % (enc, sum(w for w, c in soft if not any(a[abs(l)] == (l > 0) for l in c)), best))
        elif any(os_[k] <= os_[k + 1] for k in range(len(os_) - 1)):
            fail(res, "o-lines-not-decreasing", "%s: %s" % (enc, os_))
        count(res, "optima_checked")
    elif "s UNSATISFIABLE" in out:
        if best is not None:
            fail(res, "unsat-but-satisfiable", "%s: s UNSATISFIABLE but the hard clauses are satisfiable (optimum %s)" % (enc, best))
    else:
        fail(res, "no-verdict", "%s: %s" % (enc, crash_text(rc, out, err)))


def case_wcnf(r, i, d):
    n, hard, soft, text, classes = gen_wcnf(r)
    best = wcnf_brute(n, hard, soft)
    res = result(i, classes + (["wcnf.hard_unsat"] if best is None else []), text, [])
    for enc in ("generalized-totalizer", "cardinality-network"):
        if enc == "cardinality-network" and "wcnf.nonuniform_weights" in classes:
            continue  # documented to support uniform weights only
        eres = result(i, res["classes"] + ["enc." + enc], text, ["--upper-bound-encoding", enc])
        check_wcnf(text, n, hard, soft, best, enc, d, eres)
        for k, v in eres["counters"].items():
            count(res, k, v)
        res["cover"].append("encoding:" + enc)
        if eres["status"] == "fail" and res["status"] != "fail":
            res.update({"status": "fail", "kind": eres["kind"], "detail": eres["detail"], "classes": eres["classes"], "config": eres["config"]})
    res["nontrivial"] = len(soft) >= 2 and best is not None
    res["case"].update({"n": n, "hard": hard, "soft": soft})
    return res


def replay_wcnf(data, d):
    c = data["case"]
    soft = [(w, cl) for w, cl in c["soft"]]
    best = wcnf_brute(c["n"], c["hard"], soft)
    res = result(0, data.get("classes", []), c["text"], [])
    encs = [cl[4:] for cl in data.get("classes", []) if cl.startswith("enc.")] or ["generalized-totalizer"]
    for enc in encs:
        check_wcnf(c["text"], c["n"], c["hard"], soft, best, enc, d, res)
    return res


# ================================================================================================
# C13: FlatZinc

def tdiv(a, b):
    q = abs(a) // abs(b)
    return q if (a >= 0) == (b > 0) else -q


class Fzn:
    def __init__(self):
        self.ints = {}      # name -> list of values (declared)
        self.bools = []
        self.alias = {}     # name -> name it is equal to
        self.fixed = {}     # name -> fixed value (declared as `var int: x = 3`)
        self.decls = []
        self.cons = []      # (text, fn(a))
        self.classes = set()
        self.out_arrays = []  # (name, [elements])
        self.solve = "solve satisfy;"
        self.objective = None  # (name, 'minimize'|'maximize')


def gen_fzn(r, kinds_filter=None):
    m = Fzn()
    ni = r.randint(2, 4)
    nb = r.randint(1, 3)
    # parameter arrays
    par_arrays = {}
    if r.random() < 0.4:
        vals = [r.randint(-2, 4) for _ in range(r.randint(1, 4))]
        par_arrays["pa"] = vals
        m.decls.append("array [1..%d] of int: pa = [%s];" % (len(vals), ",".join(map(str, vals))))
        m.classes.add("fzn.parameter_array")
    for i in range(ni):
        name = "x%d" % i
        kind = r.random()
        if kind < 0.2:
            vals = sorted(r.sample(range(-3, 7), r.randint(2, 4)))
            m.ints[name] = vals
            m.decls.append("var {%s}: %s :: output_var;" % (",".join(map(str, vals)), name))
            m.classes.add("fzn.set_domain")
        elif kind < 0.27 and i > 0:
            # alias of an earlier integer variable
            tgt = "x%d" % r.randrange(i)
            lo, hi = min(m.ints[tgt]) - r.randint(0, 1), max(m.ints[tgt]) + r.randint(0, 1)
            m.ints[name] = [v for v in m.ints[tgt]]  # same value as the target
            m.alias[name] = tgt
            m.decls.append("var %d..%d: %s :: output_var = %s;" % (lo, hi, name, tgt))
            m.classes.add("fzn.alias")
        elif kind < 0.32:
            v = r.randint(-2, 4)
            m.ints[name] = [v]
            if v % 2 == 0:
                # fixed through a parameter identifier
                m.decls.insert(0, "int: P%s = %d;" % (name, v))
                m.decls.append("var %d..%d: %s :: output_var = P%s;" % (v - 1, v + 2, name, name))
                m.classes.add("fzn.fixed_by_parameter")
            else:
                m.decls.append("var %d..%d: %s :: output_var = %d;" % (v - 1, v + 2, name, v))
            m.classes.add("fzn.fixed_value")
        else:
            lo = r.randint(-3, 2)
            hi = lo + r.randint(0, 4)
            m.ints[name] = list(range(lo, hi + 1))
            m.decls.append("var %d..%d: %s :: output_var;" % (lo, hi, name))
    for i in range(nb):
        name = "b%d" % i
        m.bools.append(name)
        m.decls.append("var bool: %s :: output_var;" % name)
    iv = list(m.ints)
    bv = m.bools
    if r.random() < 0.3:
        els = [r.choice(iv) for _ in range(r.randint(1, 3))]
        m.out_arrays.append(("arr", els))
        m.decls.append("array [1..%d] of var int: arr :: output_array([1..%d]) = [%s];" % (len(els), len(els), ",".join(els)))
        m.classes.add("fzn.output_array")

    def I():
        return r.choice(iv)

    def B():
        return r.choice(bv)

    def ic():
        return r.choice(iv) if r.random() < 0.8 else str(r.randint(-2, 4))

    def val(a, t):
        return a[t] if t in a else int(t)

    kinds = ["int_lin_le", "int_lin_eq", "int_lin_ne", "int_lin_le_reif", "int_lin_eq_reif", "int_lin_ne_reif",
             "int_eq", "int_ne", "int_le", "int_lt", "int_eq_reif", "int_ne_reif", "int_le_reif", "int_lt_reif",
             "int_plus", "int_times", "int_div", "int_abs", "int_min", "int_max", "array_int_minimum", "array_int_maximum",
             "array_var_int_element", "array_int_element", "pumpkin_all_different", "array_bool_and", "array_bool_or",
             "bool_clause", "bool_eq", "bool_eq_reif", "bool_not", "bool2int", "bool_lin_eq", "bool_lin_le",
             "pumpkin_bool_xor", "pumpkin_bool_xor_reif", "set_in", "set_in_reif_i", "set_in_reif_s", "array_bool_element",
             "array_var_bool_element", "pumpkin_cumulative", "bool_and"]
    if kinds_filter:
        kinds = kinds_filter
    for _ in range(r.randint(1, 4)):
        k = r.choice(kinds)
        m.classes.add("fzn." + k)
        if k.startswith("int_lin"):
            n = r.randint(1, 3)
            ws = [r.choice([-2, -1, 1, 2, 3, 0] if r.random() < 0.15 else [-2, -1, 1, 2, 3]) for _ in range(n)]
            if r.random() < 0.2:
                # zero coefficients between distinct non-zero ones (a term that is dropped must not shift the others)
                n = r.randint(2, 4)
                ws = [0 if r.random() < 0.4 else r.choice([-3, -2, -1, 1, 2, 3]) for _ in range(n)]
            if 0 in ws:
                m.classes.add("fzn.zero_coefficient")
            vs = [ic() for _ in range(n)]
            if any(v not in m.ints for v in vs):
                m.classes.add("fzn.constant_argument")
            rhs = r.randint(-4, 6)
            use_pa = "pa" in par_arrays and len(par_arrays["pa"]) == n and r.random() < 0.5
            if use_pa:
                ws = par_arrays["pa"]
                if 0 in ws:
                    m.classes.add("fzn.zero_coefficient")
            args = "%s, [%s], %d" % ("pa" if use_pa else "[%s]" % ",".join(map(str, ws)), ",".join(vs), rhs)
            base = k.replace("_reif", "")
            op = {"int_lin_le": lambda s, rhs=rhs: s <= rhs, "int_lin_eq": lambda s, rhs=rhs: s == rhs, "int_lin_ne": lambda s, rhs=rhs: s != rhs}[base]
            f = (lambda ws, vs, op: lambda a: op(sum(w * val(a, v) for w, v in zip(ws, vs))))(list(ws), vs, op)
            if k.endswith("_reif"):
                rr = B()
                m.cons.append(("constraint %s(%s, %s);" % (k, args, rr), (lambda f, rr: lambda a: a[rr] == f(a))(f, rr)))
            else:
                m.cons.append(("constraint %s(%s);" % (k, args), f))
        elif k in ("int_eq", "int_ne", "int_le", "int_lt", "int_eq_reif", "int_ne_reif", "int_le_reif", "int_lt_reif"):
            x, y = ic(), ic()
            if x not in m.ints and y not in m.ints:
                x = I()
            if x not in m.ints or y not in m.ints:
                m.classes.add("fzn.constant_argument")
            base = k.replace("_reif", "")
            op = {"int_eq": lambda p, q: p == q, "int_ne": lambda p, q: p != q, "int_le": lambda p, q: p <= q, "int_lt": lambda p, q: p < q}[base]
            f = (lambda x, y, op: lambda a: op(val(a, x), val(a, y)))(x, y, op)
            if k.endswith("_reif"):
                rr = B()
                m.cons.append(("constraint %s(%s, %s, %s);" % (k, x, y, rr), (lambda f, rr: lambda a: a[rr] == f(a))(f, rr)))
            else:
                m.cons.append(("constraint %s(%s, %s);" % (k, x, y), f))
        elif k in ("int_plus", "int_times", "int_min", "int_max"):
            x, y, z = I(), I(), I()
            op = {"int_plus": lambda p, q: p + q, "int_times": lambda p, q: p * q, "int_min": min, "int_max": max}[k]
            m.cons.append(("constraint %s(%s, %s, %s);" % (k, x, y, z), (lambda x, y, z, op: lambda a: op(a[x], a[y]) == a[z])(x, y, z, op)))
        elif k == "int_div":
            x, z = I(), I()
            ys = [v for v in iv if 0 not in m.ints[v]]
            if not ys:
                continue
            y = r.choice(ys)
            m.cons.append(("constraint int_div(%s, %s, %s);" % (x, y, z), (lambda x, y, z: lambda a: tdiv(a[x], a[y]) == a[z])(x, y, z)))
        elif k == "int_abs":
            x, y = I(), I()
            m.cons.append(("constraint int_abs(%s, %s);" % (x, y), (lambda x, y: lambda a: abs(a[x]) == a[y])(x, y)))
        elif k in ("array_int_minimum", "array_int_maximum"):
            rr = I()
            vs = [I() for _ in range(r.randint(1, 3))]
            op = min if k.endswith("minimum") else max
            m.cons.append(("constraint %s(%s, [%s]);" % (k, rr, ",".join(vs)), (lambda rr, vs, op: lambda a: op(a[v] for v in vs) == a[rr])(rr, vs, op)))
        elif k in ("array_var_int_element", "array_int_element"):
            i_, rr = I(), I()
            n = r.randint(1, 3)
            if k == "array_int_element":
                if "pa" in par_arrays and r.random() < 0.5:
                    arr = [str(v) for v in par_arrays["pa"]]
                    arr_txt = "pa"
                else:
                    arr = [str(r.randint(-2, 4)) for _ in range(n)]
                    arr_txt = "[%s]" % ",".join(arr)
            else:
                arr = [ic() for _ in range(n)]
                arr_txt = "[%s]" % ",".join(arr)
            involved = [i_, rr] + [t for t in arr if t in m.ints]
            if len(set(involved)) != len(involved):
                m.classes.add("fzn.element_repeated_var")
            m.cons.append(("constraint %s(%s, %s, %s);" % (k, i_, arr_txt, rr),
                           (lambda i_, arr, rr: lambda a: 1 <= a[i_] <= len(arr) and val(a, arr[a[i_] - 1]) == a[rr])(i_, arr, rr)))
        elif k == "pumpkin_all_different":
            vs = [I() for _ in range(r.randint(2, 3))]
            m.cons.append(("constraint pumpkin_all_different([%s]);" % ",".join(vs), (lambda vs: lambda a: len({a[v] for v in vs}) == len(vs))(vs)))
        elif k in ("array_bool_and", "array_bool_or"):
            bs = [B() for _ in range(r.randint(1, 3))]
            rr = B()
            op = all if k.endswith("and") else any
            m.cons.append(("constraint %s([%s], %s);" % (k, ",".join(bs), rr), (lambda bs, rr, op: lambda a: a[rr] == op(a[b] for b in bs))(bs, rr, op)))
        elif k == "bool_clause":
            ps = [B() for _ in range(r.randint(0, 2))]
            ns = [B() for _ in range(r.randint(0, 2))]
            if not ps and not ns:
                ps = [B()]
            m.cons.append(("constraint bool_clause([%s], [%s]);" % (",".join(ps), ",".join(ns)), (lambda ps, ns: lambda a: any(a[p] for p in ps) or any(not a[n] for n in ns))(ps, ns)))
        elif k in ("bool_eq", "bool_not", "pumpkin_bool_xor", "bool_le", "bool_lt"):
            x, y = B(), B()
            f = {"bool_eq": lambda p, q: p == q, "bool_not": lambda p, q: p != q, "pumpkin_bool_xor": lambda p, q: p != q,
                 "bool_le": lambda p, q: (not p) or q, "bool_lt": lambda p, q: (not p) and q}[k]
            m.cons.append(("constraint %s(%s, %s);" % (k, x, y), (lambda x, y, f: lambda a: f(a[x], a[y]))(x, y, f)))
        elif k in ("bool_eq_reif", "pumpkin_bool_xor_reif", "bool_and", "bool_or", "bool_xor", "bool_le_reif"):
            x, y, rr = B(), B(), B()
            f = {"bool_eq_reif": lambda p, q: p == q, "pumpkin_bool_xor_reif": lambda p, q: p != q, "bool_and": lambda p, q: p and q,
                 "bool_or": lambda p, q: p or q, "bool_xor": lambda p, q: p != q, "bool_le_reif": lambda p, q: (not p) or q}[k]
            m.cons.append(("constraint %s(%s, %s, %s);" % (k, x, y, rr), (lambda x, y, rr, f: lambda a: a[rr] == f(a[x], a[y]))(x, y, rr, f)))
        elif k == "bool2int":
            b, x = B(), I()
            m.cons.append(("constraint bool2int(%s, %s);" % (b, x), (lambda b, x: lambda a: int(a[b]) == a[x])(b, x)))
        elif k in ("bool_lin_eq", "bool_lin_le"):
            n = r.randint(1, 3)
            ws = [r.choice([-2, -1, 1, 2]) for _ in range(n)]
            bs = [B() for _ in range(n)]
            if k == "bool_lin_eq":
                rr = I()
                m.cons.append(("constraint bool_lin_eq([%s], [%s], %s);" % (",".join(map(str, ws)), ",".join(bs), rr),
                               (lambda ws, bs, rr: lambda a: sum(w * int(a[b]) for w, b in zip(ws, bs)) == a[rr])(ws, bs, rr)))
            else:
                c = r.randint(-2, 3)
                m.cons.append(("constraint bool_lin_le([%s], [%s], %d);" % (",".join(map(str, ws)), ",".join(bs), c),
                               (lambda ws, bs, c: lambda a: sum(w * int(a[b]) for w, b in zip(ws, bs)) <= c)(ws, bs, c)))
        elif k == "set_in":
            x = I()
            if r.random() < 0.5:
                lo = r.randint(-2, 2)
                hi = lo + r.randint(0, 3)
                txt = "%d..%d" % (lo, hi)
                S = set(range(lo, hi + 1))
            else:
                S = set(r.sample(range(-3, 6), r.randint(1, 4)))
                txt = "{%s}" % ",".join(map(str, sorted(S)))
            if not (S & set(m.ints[x])):
                m.classes.add("fzn.set_in_disjoint")
            if m.decls and any(d.startswith("var {") and (" %s " % x) in d for d in m.decls):
                m.classes.add("fzn.set_in_on_set_domain")
            m.cons.append(("constraint set_in(%s, %s);" % (x, txt), (lambda x, S: lambda a: a[x] in S)(x, S)))
        elif k in ("set_in_reif_i", "set_in_reif_s"):
            x, rr = I(), B()
            if k.endswith("_i"):
                lo = r.randint(-2, 2)
                hi = lo + r.randint(0, 3)
                txt = "%d..%d" % (lo, hi)
                S = set(range(lo, hi + 1))
            else:
                S = set(r.sample(range(-3, 6), r.randint(1, 4)))
                txt = "{%s}" % ",".join(map(str, sorted(S)))
            m.cons.append(("constraint set_in_reif(%s, %s, %s);" % (x, txt, rr), (lambda x, S, rr: lambda a: a[rr] == (a[x] in S))(x, S, rr)))
        elif k in ("array_bool_element", "array_var_bool_element"):
            i_, rr = I(), B()
            n = r.randint(1, 3)
            arr = [r.choice(["true", "false"]) for _ in range(n)] if k == "array_bool_element" else [B() for _ in range(n)]
            m.cons.append(("constraint %s(%s, [%s], %s);" % (k, i_, ",".join(arr), rr),
                           (lambda i_, arr, rr: lambda a: 1 <= a[i_] <= len(arr) and (a[arr[a[i_] - 1]] if arr[a[i_] - 1] in a else arr[a[i_] - 1] == "true") == a[rr])(i_, arr, rr)))
        elif k == "pumpkin_cumulative":
            cand = [v for v in iv if min(m.ints[v]) >= 0 and v not in m.alias]
            if not cand:
                continue
            n = r.randint(1, min(3, len(cand)))
            vs = r.sample(cand, n)
            cap = r.randint(1, 3)
            du = [r.randint(1, 3) for _ in range(n)]
            rq = [r.randint(1, cap) for _ in range(n)]
            m.cons.append(("constraint pumpkin_cumulative([%s], [%s], [%s], %d);" % (",".join(vs), ",".join(map(str, du)), ",".join(map(str, rq)), cap),
                           (lambda vs, du, rq, cap: lambda a: all(sum(rq[j] for j in range(len(vs)) if a[vs[j]] <= t < a[vs[j]] + du[j]) <= cap for t in range(0, 14)))(vs, du, rq, cap)))
    # solve item
    ann = ""
    if r.random() < 0.4:
        varsel = r.choice(["input_order", "first_fail", "anti_first_fail", "smallest", "largest", "max_regret"])
        allvals = ["indomain_min", "indomain_max", "indomain_median", "indomain_middle", "indomain_split", "indomain_reverse_split", "indomain", "indomain_interval",
                   "indomain_random", "indomain_split_random", "outdomain_min", "outdomain_max", "outdomain_median", "outdomain_random"]
        valsel = r.choice(allvals)
        if r.random() < 0.4 and bv:
            ann = " :: bool_search([%s], %s, %s, complete)" % (",".join(bv), r.choice(["input_order", "first_fail", "anti_first_fail", "smallest", "largest", "max_regret"]), r.choice(allvals))
        else:
            ann = " :: int_search([%s], %s, %s, complete)" % (",".join(iv), varsel, valsel)
        m.classes.add("fzn.search_annotation")
    mode = r.random()
    if mode < 0.65:
        m.solve = "solve%s satisfy;" % ann
    else:
        o = I()
        d = "minimize" if r.random() < 0.5 else "maximize"
        m.objective = (o, d)
        m.solve = "solve%s %s %s;" % (ann, d, o)
        m.classes.add("fzn." + d)
    return m


def fzn_text(m):
    return "\n".join(m.decls + [c[0] for c in m.cons] + [m.solve]) + "\n"


def fzn_brute(m):
    """All solutions as tuples over names (aliases and fixed values folded in)."""
    free = [v for v in m.ints if v not in m.alias]
    names = list(m.ints) + m.bools
    doms = [m.ints[v] for v in free] + [[False, True]] * len(m.bools)
    sols = []
    for vals in itertools.product(*doms):
        a = dict(zip(free + m.bools, vals))
        ok = True
        for al, tgt in m.alias.items():
            t = tgt
            while t in m.alias:
                t = m.alias[t]
            a[al] = a[t]
        # alias declarations carry their own declared range
        if all(c[1](a) for c in m.cons):
            sols.append(a)
    return names, sols


def parse_fzn_out(out):
    blocks = []
    cur = {}
    status = {"complete": False, "unsat": False, "unknown": False}
    for line in out.splitlines():
        line = line.strip()
        mm = re.match(r"^(\w+) = (-?\d+|true|false);$", line)
        ma = re.match(r"^(\w+) = array1d\((\d+)\.\.(\d+), \[(.*)\]\);$", line)
        if mm:
            cur[mm.group(1)] = (mm.group(2) == "true") if mm.group(2) in ("true", "false") else int(mm.group(2))
        elif ma:
            cur[ma.group(1)] = [int(x) for x in ma.group(4).split(",") if x.strip()]
        elif line == "----------":
            blocks.append(cur)
            cur = {}
        elif line == "==========":
            status["complete"] = True
        elif line == "=====UNSATISFIABLE=====":
            status["unsat"] = True
        elif line == "=====UNKNOWN=====":
            status["unknown"] = True
        elif line.startswith("%") or not line:
            continue
    return blocks, status


class FznSpec:
    """What the oracle needs to judge an output: recorded with every case so that a replay does not depend
    on the generator."""

    def __init__(self, names, sols, out_arrays, objective):
        self.names, self.sols, self.out_arrays, self.objective = names, sols, out_arrays, objective

    @staticmethod
    def of(m):
        names, sols = fzn_brute(m)
        return FznSpec(names, sols, m.out_arrays, m.objective)

    def to_json(self):
        return {"names": self.names, "solutions": [[a[n] for n in self.names] for a in self.sols], "out_arrays": self.out_arrays, "objective": self.objective}

    @staticmethod
    def from_json(j):
        sols = [dict(zip(j["names"], vals)) for vals in j["solutions"]]
        return FznSpec(j["names"], sols, [tuple(x) for x in j["out_arrays"]], tuple(j["objective"]) if j["objective"] else None)


def check_fzn(m, text, args, d, res):
    path = os.path.join(d, "m.fzn")
    with open(path, "w") as f:
        f.write(text)
    rc, out, err = run_cli([path] + args)
    count(res, "cli_runs")
    if rc == "timeout":
        fail(res, "timeout", "no answer within 20 s (args %s)" % args)
        return
    names, sols = m.names, m.sols
    blocks, status = parse_fzn_out(out)
    if rc != 0 or "panicked" in err:
        fail(res, "no-verdict", crash_text(rc, out, err))
        return

    def project(a):
        p = {n: a[n] for n in names}
        for an, els in m.out_arrays:
            p[an] = [a[e] for e in els]
        return p

    def key(p):
        return tuple(sorted((k, tuple(v) if isinstance(v, list) else v) for k, v in p.items()))

    expected = {key(project(a)) for a in sols}
    out_names = set(names) | {an for an, _ in m.out_arrays}
    for b in blocks:
        count(res, "solution_blocks_checked")
        if set(b) != out_names:
            fail(res, "output-variables-mismatch", "printed %s, expected the output variables %s" % (sorted(b), sorted(out_names)))
            return
        if key(b) not in expected:
            fail(res, "printed-non-solution", "the printed assignment %s does not extend to a solution" % b)
            return
    if status["unsat"]:
        if sols:
            fail(res, "unsat-but-satisfiable", "=====UNSATISFIABLE===== but the model has %d solutions" % len(sols))
        elif blocks:
            fail(res, "unsat-after-solutions", "solutions printed and then =====UNSATISFIABLE=====")
        return
    if not sols:
        fail(res, "missing-unsat-marker", "the model has no solution but the output is %r" % out[-200:])
        return
    if m.objective is None:
        if "-a" in args:
            got = [key(b) for b in blocks]
            if len(set(got)) != len(got):
                fail(res, "duplicate-solution", "a solution was printed twice under -a")
            elif set(got) != expected:
                fail(res, "solution-set-mismatch", "-a printed %d distinct assignments, the projection of all solutions has %d (missing %s)" % (len(set(got)), len(expected), list(expected - set(got))[:2]))
            elif not status["complete"]:
                fail(res, "missing-completeness-line", "all solutions printed but no ========== line")
        else:
            if len(blocks) != 1:
                fail(res, "wrong-number-of-solutions", "%d solution blocks without -a" % len(blocks))
    else:
        o, dirn = m.objective
        vals = [a[o] for a in sols]
        best = min(vals) if dirn == "minimize" else max(vals)
        if not blocks:
            fail(res, "no-solution-printed", "optimisation problem with solutions printed none: %r" % out[-200:])
        elif not status["complete"]:
            fail(res, "missing-completeness-line", "optimisation finished without ==========")
        elif blocks[-1][o] != best:
            fail(res, "wrong-optimum", "last solution before ========== has %s = %s, optimum is %s" % (o, blocks[-1][o], best))
        else:
            seq = [b[o] for b in blocks]
            if any((seq[k + 1] >= seq[k]) if dirn == "minimize" else (seq[k + 1] <= seq[k]) for k in range(len(seq) - 1)) and "--optimisation-strategy" not in " ".join(args):
                pass


def fzn_args(r, m):
    args = []
    if m.objective is None and r.random() < 0.7:
        args.append("-a")
    if r.random() < 0.4:
        args.append("-f")
    if m.objective is not None:
        args += ["--optimisation-strategy", r.choice(["linear-sat-unsat", "linear-unsat-sat"])]
    if any("pumpkin_cumulative" in c[0] for c in m.cons) and r.random() < 0.7:
        if r.random() < 0.5:
            args.append("--cumulative-allow-holes")
        args += ["--cumulative-explanation-type", r.choice(["naive", "big-step", "pointwise"])]
        args += ["--cumulative-propagation-method", r.choice(["time-table-per-point", "time-table-per-point-incremental", "time-table-per-point-incremental-synchronised",
                                                                "time-table-over-interval", "time-table-over-interval-incremental", "time-table-over-interval-incremental-synchronised"])]
        if r.random() < 0.5:
            args.append("--cumulative-generate-sequence")
        if r.random() < 0.5:
            args.append("--cumulative-incremental-backtracking")
    return args


def php_timelimit_fzn(np):
    """minimize z over {1,2,3}. The search order (input order, smallest value first over b, 4-z, nr, pigeons)
    finds (b=0, z=3) at once; z <= 2 with b = 0 requires np pigeons in np-1 holes (a long refutation), while
    b = 1 allows z = 1. So a run cut short by --time-limit holds a suboptimal incumbent."""
    holes = np - 1
    L = ["var 0..1: b :: output_var;", "var 1..3: zz;", "var 1..3: z :: output_var;", "var 0..1: nr;"]
    for k in range(np):
        L.append("var 1..%d: p%d;" % (holes + 1, k))
    ps = ",".join("p%d" % k for k in range(np))
    L.append("array [1..%d] of var int: ps = [%s];" % (np, ps))
    L.append("array [1..%d] of var int: order = [b,zz,nr,%s];" % (np + 3, ps))
    L.append("constraint int_lin_eq([1,1],[z,zz],4);")
    L.append("constraint int_lin_le([-1,1,-2],[nr,zz,b],1);")
    for k in range(np):
        L.append("constraint int_lin_le([1,1],[p%d,nr],%d);" % (k, holes + 1))
    L.append("constraint pumpkin_all_different(ps);")
    L.append("solve :: int_search(order,input_order,indomain_min,complete) minimize z;")
    return "\n".join(L) + "\n"


def case_fzn_timelimit(r, i, d):
    """An optimisation run that is cut short by --time-limit must not print the completeness line after a
    suboptimal solution (and whatever it prints must be a solution). The verdict does not depend on timing: a
    run that finishes in time has to end with the optimum, a run that does not may print nothing further."""
    np = r.choice([12, 13, 14])
    limit = r.choice([200, 400, 800])
    text = php_timelimit_fzn(np)
    args = ["--time-limit", str(limit)] + (["-a"] if r.random() < 0.5 else [])
    res = result(i, ["fzn.time_limit", "fzn.objective", "kind.int_lin_le", "kind.int_lin_eq", "kind.pumpkin_all_different"], text, args)
    path = os.path.join(d, "m.fzn")
    with open(path, "w") as f:
        f.write(text)
    rc, out, err = run_cli([path] + args, timeout=60)
    count(res, "cli_runs")
    count(res, "time_limited_runs")
    res["nontrivial"] = True
    res["cover"].append("fzn.time_limit")
    if rc == "timeout":
        fail(res, "timeout", "no answer within 60 s although --time-limit %d was given" % limit)
        return res
    if rc != 0 or "panicked" in err:
        fail(res, "no-verdict", crash_text(rc, out, err))
        return res
    blocks, status = parse_fzn_out(out)
    ok = {(0, 3), (1, 1), (1, 2), (1, 3)}
    for bl in blocks:
        count(res, "solution_blocks_checked")
        if (bl.get("b"), bl.get("z")) not in ok:
            fail(res, "printed-non-solution", "the printed assignment %s does not extend to a solution" % bl)
            return res
    if status["unsat"]:
        fail(res, "unsat-but-satisfiable", "=====UNSATISFIABLE===== but (b=1, z=1) is a solution")
    elif status["complete"]:
        count(res, "time_limited_runs_complete")
        if not blocks or blocks[-1].get("z") != 1:
            fail(res, "completeness-line-after-suboptimal-solution",
                 "========== printed after %s, the optimum is z = 1 (run with --time-limit %d)" % (blocks[-1] if blocks else "no solution", limit))
    else:
        count(res, "time_limited_runs_cut_short")
    return res


def case_fzn(r, i, d):
    if i % 500 == 499:
        return case_fzn_timelimit(r, i, d)
    m = gen_fzn(r)
    text = fzn_text(m)
    args = fzn_args(r, m)
    classes = sorted(m.classes) + ["flag." + a.lstrip("-") for a in args if a in ("-a", "-f")]
    res = result(i, classes, text, args)
    res["_model"] = m
    spec = FznSpec.of(m)
    check_fzn(spec, text, args, d, res)
    sols = spec.sols
    if len(sols) <= 64:
        res["case"]["oracle"] = spec.to_json()
    res["nontrivial"] = len(sols) >= 2
    for c in m.classes:
        res["cover"].append(c)
    for a in args:
        if a.startswith("-") and not a.startswith("--cumulative"):
            res["cover"].append("flag:" + a)
    res["case"]["seed_note"] = "regenerate with the recorded (seed, mode, index)"
    del res["_model"]
    return res


# ================================================================================================
# C20: byte-level reproducibility of the CLI

MASK = [(re.compile(r"(\w*[Tt]ime\w*)=\S+"), r"\1=<t>"),
        (re.compile(r"\b\d{4}-\d{2}-\d{2}T\d{2}:\d{2}:\d{2}\S*"), "<ts>"),
        (re.compile(r"\[\d{2}:\d{2}:\d{2}[^\]]*\]"), "[<ts>]")]


def mask(s):
    for rx, rep in MASK:
        s = rx.sub(rep, s)
    return s


def case_repro(r, i, d, runs):
    kind = ["cnf", "wcnf", "fzn", "fzn-proof"][i % 4]
    classes = ["repro." + kind]
    files = []
    if kind == "cnf":
        n, clauses, _ = gen_cnf(r)
        text = cnf_layouts(r, n, clauses)[0][1]
        ext = "cnf"
        args = ["-s", "-r", str(r.randint(0, 1000)), "--proof-path", "P.drat"]
        files = ["P.drat"]
    elif kind == "wcnf":
        n, hard, soft, text, cl = gen_wcnf(r)
        if "wcnf.plain" not in cl:
            # keep to the regime in which the solver produces an answer
            n, hard, soft, text, cl = gen_wcnf(random.Random(i))
        ext = "wcnf"
        args = ["-s", "-r", str(r.randint(0, 1000))]
    else:
        m = gen_fzn(r, kinds_filter=["int_lin_le", "int_lin_eq", "int_lin_ne", "int_ne", "int_le", "int_times", "int_abs", "int_max", "pumpkin_all_different",
                                    "array_bool_or", "bool_clause", "bool2int", "int_lin_le_reif", "array_var_int_element", "pumpkin_cumulative"])
        text = fzn_text(m)
        ext = "fzn"
        args = ["-s", "-r", str(r.randint(0, 1000))] + (["-a"] if m.objective is None else [])
        if r.random() < 0.5:
            args.append("-f")
        if kind == "fzn-proof":
            args += ["--proof-path", "P.drcp", "--proof-type", r.choice(["scaffold", "full", "with-hints"])]
            files = ["P.drcp", "P.lits"]
    res = result(i, classes, text, args)
    outs = []
    for k in range(runs):
        rd = os.path.join(d, "run%d" % k)
        os.makedirs(rd, exist_ok=True)
        path = os.path.join(rd, "in." + ext)
        with open(path, "w") as f:
            f.write(text)
        a = [x if not x.startswith("P.") else os.path.join(rd, x) for x in args]
        # perturbation: environment size differs per run (shifts the stack / heap layout), each run is a fresh process
        rc, out, err = run_cli([path] + a, env_extra={"VERIF_PAD": "x" * (137 * k)})
        count(res, "cli_runs")
        if rc == "timeout":
            res["status"] = "skip"
            res["skip"] = "timeout (judged by other properties)"
            return res
        if rc != 0:
            res["status"] = "skip"
            res["skip"] = "non-zero exit (judged by other properties)"
            return res
        blob = {"stdout": mask(out).replace(rd, "<dir>")}
        for fn in files:
            p = os.path.join(rd, fn)
            blob[fn] = open(p, "rb").read().decode("utf-8", "replace") if os.path.exists(p) else "<missing>"
        outs.append(blob)
    for k in range(1, runs):
        for key in outs[0]:
            if outs[k][key] != outs[0][key]:
                a_, b_ = outs[0][key].splitlines(), outs[k][key].splitlines()
                diff = next(((x, y) for x, y in zip(a_, b_) if x != y), (len(a_), len(b_)))
                fail(res, "output-differs-between-runs", "%s of run 0 and run %d differ (args %s): first difference %r" % (key, k, args, diff))
                break
        if res["status"] == "fail":
            break
    res["cover"].append("kind:" + kind)
    for fn in files:
        res["cover"].append("file:" + fn.split(".")[-1])
    res["nontrivial"] = len(outs[0]["stdout"].splitlines()) >= 3
    return res


def replay_fzn(data, d):
    """Replays a recorded FlatZinc case: the recorded text and arguments are run again and judged against the
    recorded solution set."""
    c = data["case"]
    args = (data.get("config") or {}).get("args", [])
    res = result(0, data.get("classes", []), c["text"], args)
    if "oracle" not in c:
        res["status"] = "skip"
        return res
    check_fzn(FznSpec.from_json(c["oracle"]), c["text"], args, d, res)
    return res
